import sys, random, collections, traceback
import monplug  # installs monitor
from monplug import FIRED, CALLS
from discopy import cat, monoidal, rigid, tensor, biclosed, cartesian
from discopy.quantum import circuit as qc, gates as qg, zx
from discopy.rewriting import InterchangerError

def scan(d):
    if isinstance(d, cat.Sum):
        for t in d.terms:
            assert (t.dom, t.cod) == (d.dom, d.cod), "sum term type"
            scan(t)
        return
    if not isinstance(d, monoidal.Diagram):
        if isinstance(d, cat.Arrow):
            s = d.dom
            for b in d.boxes:
                assert b.dom == s, "arrow box dom"; s = b.cod
            assert s == d.cod, "arrow cod"
        return
    s = d.dom
    assert len(d.boxes) == len(d.offsets) == len(d.layers)
    for (box, off), lay in zip(zip(d.boxes, d.offsets), d.layers.boxes):
        l, b, r = lay
        assert s[off:off + len(box.dom)] == box.dom, "box dom"
        assert l == s[:off] and r == s[off + len(box.dom):], "layer"
        s = s[:off] @ box.cod @ s[off + len(box.dom):]
    assert s == d.cod, "cod"
    assert d.layers.dom == d.dom and d.layers.cod == d.cod

class Fam:
    pass

def fam_monoidal(rng):
    T = monoidal.Ty; atoms = ['x', 'y']
    def ty(n): return T(*[rng.choice(atoms) for _ in range(n)])
    def box(dom, k): return monoidal.Box('b%d' % k, dom, ty(rng.randint(0, 2)))
    return monoidal.Id, ty, box, monoidal.Diagram
def fam_rigid(rng):
    def ty(n): return rigid.Ty(*[rigid.Ob(rng.choice('ab'), rng.choice([0, 0, 1, -1])) for _ in range(n)])
    def box(dom, k): return rigid.Box('b%d' % k, dom, ty(rng.randint(0, 2)))
    return rigid.Id, ty, box, rigid.Diagram
def fam_tensor(rng):
    def ty(n): return tensor.Dim(*[rng.choice([2, 3]) for _ in range(n)])
    def box(dom, k):
        cod = ty(rng.randint(0, 2))
        import numpy as np
        n = int(np.prod(list(dom) + list(cod) + [1]))
        return tensor.Box('b%d' % k, dom, cod, [rng.randint(-1, 1) for _ in range(n)])
    return tensor.Id, ty, box, tensor.Diagram
def fam_circuit(rng):
    def ty(n): return qc.Ty(*[rng.choice([qc.bit, qc.qubit])[0] for _ in range(n)])
    def box(dom, k):
        if dom == qc.qubit: return rng.choice([qg.H, qg.X, qg.Rz(0.3), qc.Measure(), qc.Discard()])
        if dom == qc.qubit ** 2: return rng.choice([qg.CX, qg.CZ, qg.CRz(.2)])
        if not dom: return rng.choice([qg.Ket(0), qg.Ket(1, 0), qg.Bits(0), qg.scalar(.5)])
        cod = ty(rng.randint(0, 2))
        return qc.Box('b%d' % k, dom, cod)
    return qc.Id, ty, box, qc.Circuit
def fam_zx(rng):
    def ty(n): return rigid.PRO(n)
    def box(dom, k):
        return rng.choice([zx.Z, zx.X])(len(dom), rng.randint(0, 2), rng.choice([0, .25, .5]))
    return (lambda t: zx.Id(len(t))), ty, box, zx.Diagram
def fam_biclosed(rng):
    def aty(): 
        t = biclosed.Ty(rng.choice('xy'))
        if rng.random() < .3: t = t << biclosed.Ty(rng.choice('xy'))
        if rng.random() < .2: t = biclosed.Ty(rng.choice('xy')) >> t
        return t
    def ty(n):
        r = biclosed.Ty()
        for _ in range(n): r = r @ aty()
        return r
    def box(dom, k): return biclosed.Box('b%d' % k, dom, ty(rng.randint(0, 2)))
    return biclosed.Id, ty, box, biclosed.Diagram
def fam_cartesian(rng):
    def ty(n): return rigid.PRO(n)
    def box(dom, k):
        m = rng.randint(0, 2)
        return cartesian.Box('b%d' % k, len(dom), m, lambda *xs, m=m: tuple(range(m)) if m != 1 else 0)
    return (lambda t: cartesian.Id(len(t))), ty, box, cartesian.Diagram

FAMS = dict(monoidal=fam_monoidal, rigid=fam_rigid, tensor=fam_tensor, circuit=fam_circuit, zx=fam_zx, biclosed=fam_biclosed, cartesian=fam_cartesian)

def rand_diagram(rng, fam, n):
    Id, ty, box, cls = fam
    d = Id(ty(rng.randint(0, 3)))
    for k in range(n):
        cod = d.cod
        nin = rng.randint(0, min(2, len(cod)))
        off = rng.randint(0, len(cod) - nin)
        b = box(cod[off:off + nin], k)
        d = d >> Id(cod[:off]) @ b @ Id(cod[off + nin:])
    return d

rng = random.Random(int(sys.argv[1])); st = collections.Counter()
for t in range(int(sys.argv[2])):
    name = rng.choice([f for f in sorted(FAMS) if f in (sys.argv[3].split(",") if len(sys.argv) > 3 else FAMS)]); fam = FAMS[name](rng)
    try:
        d = rand_diagram(rng, fam, rng.randint(0, 6))
    except Exception as e:
        st[name, 'gen', type(e).__name__] += 1
        if st[name, 'gen', type(e).__name__] <= 1: traceback.print_exc(limit=3)
        continue
    ops = {
        'scan': lambda: d,
        'dagger': lambda: d[::-1],
        'daggerdagger': lambda: d[::-1][::-1],
        'slice': lambda: d[rng.randint(0, len(d)):][: rng.randint(0, len(d))],
        'getitem': lambda: d[rng.randrange(len(d))] if len(d) else d,
        'tensor': lambda: d @ d,
        'then_dagger': lambda: d >> d[::-1],
        'interchange': lambda: d.interchange(rng.randrange(max(len(d), 1)), rng.randrange(max(len(d), 1)), left=rng.random() < .5),
        'normal_form': lambda: d.normal_form(),
        'foliation': lambda: d.foliation(),
        'flatten': lambda: d.foliation().flatten(),
        'iter': lambda: cat.Id(d.dom) if not len(d) else list(d)[-1],
        'swap': lambda: type(d).swap(d.dom, d.cod),
        'permute': lambda: d.permute(*rng.sample(range(len(d.cod)), len(d.cod))),
        'sum': lambda: (d + d) >> (d[::-1] + d[::-1]),
        'sumtensor': lambda: (d + d) @ d,
    }
    for opname, f in ops.items():
        try:
            r = f()
            scan(r)
            assert isinstance(r, type(d).__mro__[0]) or True
            st[name, opname, 'ok'] += 1
        except (InterchangerError, NotImplementedError) as e:
            st[name, opname, type(e).__name__] += 1
        except AssertionError as e:
            st[name, opname, 'ILLTYPED ' + str(e)] += 1
            if st[name, opname, 'ILLTYPED ' + str(e)] <= 1:
                print("ILLTYPED", name, opname, e, "\n  d =", repr(d)[:300])
        except Exception as e:
            k = (name, opname, type(e).__name__ + ': ' + str(e)[:50])
            st[k] += 1
            if st[k] <= 1:
                print("EXC", k, "\n  d =", repr(d)[:200]); traceback.print_exc(limit=2)
for k in sorted(st, key=str):
    if k[2] != 'ok': print(k, st[k])
print("ok total", sum(v for k, v in st.items() if k[2] == 'ok'), "monitor", dict(CALLS), dict(FIRED))
