import sys, random, collections, itertools
from discopy.rigid import Ty, Ob, Cup, Id
from discopy.grammar.pregroup import Word, eager_parse, brute_force
rng = random.Random(int(sys.argv[1])); st = collections.Counter()
def rty(n): return Ty(*[Ob(rng.choice('ns'), rng.choice([0, 0, 1, -1, 2])) for _ in range(n)])
for t in range(int(sys.argv[2])):
    words = [Word('w%d' % i, rty(rng.randint(1, 3))) for i in range(rng.randint(1, 4))]
    target = rty(rng.randint(0, 2)) if rng.random() < .7 else Ty('s')
    try:
        r = eager_parse(*words, target=target)
    except NotImplementedError:
        st['NIE'] += 1; continue
    except Exception as e:
        st[type(e).__name__ + str(e)[:50]] += 1; continue
    st['parsed'] += 1
    assert r.dom == Ty() and r.cod == target
    assert r.boxes[:len(words)] == words
    s = Ty()
    for k, (box, off) in enumerate(zip(r.boxes, r.offsets)):
        if k < len(words):
            assert off == len(s); s = s @ box.cod
        else:
            assert isinstance(box, Cup) and s[off:off+1].r == s[off+1:off+2] and box.dom == s[off:off+2]
            s = s[:off] @ s[off+2:]
    assert s == target
# brute force prefix
vocab = [Word('A', Ty('n')), Word('l', Ty('n').r @ Ty('s') @ Ty('n').l), Word('B', Ty('n'))]
out = list(itertools.islice(brute_force(*vocab), 4))
print([str(o)[:60] for o in out][:2], st)
