import sys, random, collections, traceback
import numpy as np
import pytket
from exp3 import simulate, rand_circuit, tk_semantics
from discopy.quantum import Circuit

def rand_tk(rng, nq, nb, n):
    c = pytket.Circuit(nq, nb)
    for _ in range(n):
        k = rng.choice(['H','S','T','X','Y','Z','Rx','Rz','CX','CZ','SWAP','CRz','Measure'])
        if k in ('H','S','T','X','Y','Z'):
            getattr(c, k)(rng.randrange(nq))
        elif k in ('Rx','Rz'):
            getattr(c, k)(rng.choice([.25,.5,.3,-.7]), rng.randrange(nq))
        elif k in ('CX','CZ','SWAP') and nq >= 2:
            a, b = rng.sample(range(nq), 2); getattr(c, k)(a, b)
        elif k == 'CRz' and nq >= 2:
            a, b = rng.sample(range(nq), 2); c.CRz(rng.choice([.25,.5,.3]), a, b)
        elif k == 'Measure' and nb:
            c.Measure(rng.randrange(nq), rng.randrange(nb))
    return c

rng = random.Random(int(sys.argv[1])); st = collections.Counter()
for t in range(int(sys.argv[2])):
    nq, nb = rng.randint(1, 3), rng.randint(0, 2)
    tkc = rand_tk(rng, nq, nb, rng.randint(1, 7))
    st['n'] += 1
    try:
        d = Circuit.from_tk(tkc)
        got = np.asarray(d.eval(mixed=True).array, dtype=complex)
        ref = simulate(tkc)
        key = 'ok' if ref.shape == got.shape and np.allclose(ref, got, atol=1e-9) else ('shape' if ref.shape != got.shape else 'MISMATCH')
        st[key] += 1
        if key != 'ok' and st[key] <= 3:
            print(key, [str(c) for c in tkc.get_commands()], "\n  d=", d, "\n ref", ref.flatten().round(3), "\n got", got.flatten().round(3))
    except Exception as e:
        k = type(e).__name__ + ':' + str(e)[:60]; st[k] += 1
        if st[k] <= 1:
            print("EXC", k, [str(c) for c in tkc.get_commands()]); traceback.print_exc(limit=3)
print(st)
