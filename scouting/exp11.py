# C01 scouting: structural constructors & functors across classes, monitor + caller-side scan
import sys, random, collections, traceback
import monplug
from monplug import FIRED, CALLS
def scan(d):
    if isinstance(d, cat.Sum):
        for t in d.terms:
            assert (t.dom, t.cod) == (d.dom, d.cod), "sum term type"
            scan(t)
        return
    if not isinstance(d, monoidal.Diagram):
        if isinstance(d, cat.Arrow):
            s = d.dom
            for b in d.boxes:
                assert b.dom == s, "arrow box dom"; s = b.cod
            assert s == d.cod, "arrow cod"
        return
    s = d.dom
    assert len(d.boxes) == len(d.offsets) == len(d.layers)
    for (box, off), lay in zip(zip(d.boxes, d.offsets), d.layers.boxes):
        l, b, r = lay
        assert s[off:off + len(box.dom)] == box.dom, "box dom"
        assert l == s[:off] and r == s[off + len(box.dom):], "layer"
        s = s[:off] @ box.cod @ s[off + len(box.dom):]
    assert s == d.cod, "cod"
    assert d.layers.dom == d.dom and d.layers.cod == d.cod

from discopy import cat, monoidal, rigid, tensor, biclosed
from discopy.quantum import circuit as qc, gates as qg, zx
import numpy as np

rng = random.Random(int(sys.argv[1])); st = collections.Counter()
def rob(): return rigid.Ob(rng.choice('ab'), rng.choice([0, 0, 0, 1, -1, 2]))
def rty(n): return rigid.Ty(*[rob() for _ in range(n)])
def rbox(k, dom=None, cod=None):
    return rigid.Box('f%d' % k, rty(rng.randint(0, 2)) if dom is None else dom, rty(rng.randint(0, 2)) if cod is None else cod)
def rdiag(n, dom=None):
    d = rigid.Id(rty(rng.randint(0, 3)) if dom is None else dom)
    for k in range(n):
        cod = d.cod; nin = rng.randint(0, min(2, len(cod))); off = rng.randint(0, len(cod) - nin)
        d = d >> rigid.Id(cod[:off]) @ rbox(k, cod[off:off + nin]) @ rigid.Id(cod[off + nin:])
    return d

def trial(name, f):
    try:
        r = f()
        rs = r if isinstance(r, (list, tuple)) else [r]
        for x in rs: scan(x)
        st[name, 'ok'] += 1
        return r
    except AssertionError as e:
        st[name, 'ILLTYPED ' + str(e)] += 1
        if st[name, 'ILLTYPED ' + str(e)] <= 2:
            print("ILLTYPED", name, e); traceback.print_exc(limit=3)
    except (NotImplementedError,) as e:
        st[name, 'NIE'] += 1
    except Exception as e:
        k = (name, type(e).__name__ + ': ' + str(e)[:70]); st[k] += 1
        if st[k] <= 1: print("EXC", k)

for t in range(int(sys.argv[2])):
    a, b = rty(rng.randint(0, 3)), rty(rng.randint(0, 3))
    d = rdiag(rng.randint(0, 5))
    trial('rigid.cups', lambda: rigid.Diagram.cups(a, a.r))
    trial('rigid.cups.l', lambda: rigid.Diagram.cups(a.l, a))
    trial('rigid.caps', lambda: rigid.Diagram.caps(a, a.l))
    trial('rigid.caps.r', lambda: rigid.Diagram.caps(a.r, a))
    trial('rigid.swap', lambda: rigid.Diagram.swap(a, b))
    perm = list(range(len(a))); rng.shuffle(perm)
    trial('rigid.permutation', lambda: rigid.Diagram.permutation(perm, a))
    trial('rigid.transpose', lambda: d.transpose())
    trial('rigid.transpose.l', lambda: d.transpose(left=True))
    trial('rigid.transpose.nf', lambda: d.transpose().normal_form())
    trial('rigid.transpose.steps', lambda: list(__import__('itertools').islice(d.transpose(left=True).normalize(), 50)))
    trial('rigid.fa', lambda: rigid.Diagram.fa(a @ b.l, b) if b else rigid.Id(a))
    trial('rigid.ba', lambda: rigid.Diagram.ba(a, a.r @ b))
    trial('rigid.fc', lambda: rigid.Diagram.fc(a, b, a))
    trial('rigid.bc', lambda: rigid.Diagram.bc(a, b, a))
    trial('rigid.fx', lambda: rigid.Diagram.fx(a, b, a))
    trial('rigid.bx', lambda: rigid.Diagram.bx(a, b, a))
    trial('rigid.curry', lambda: rigid.Diagram.curry(d, n_wires=rng.randint(0, len(d.dom))) )
    trial('rigid.curry.l', lambda: rigid.Diagram.curry(d, n_wires=rng.randint(0, len(d.dom)), left=True))
    # functors: rigid -> rigid with random object map (lengths 0..2) and box images
    atoms = {rigid.Ty('a'): rty(rng.randint(0, 2)), rigid.Ty('b'): rty(rng.randint(0, 2))}
    F0 = rigid.Functor(ob=atoms, ar={})
    def ar(box):
        return rdiag(rng.randint(0, 2), dom=F0(box.dom)) >> rigid.Box('g' + str(box.name), F0(box.dom) if False else rigid.Ty(), rigid.Ty()) if False else _img(box)
    cache = {}
    def _img(box):
        key = repr(box)
        if key not in cache:
            dom, cod = F0(box.dom), F0(box.cod)
            mid = rigid.Box('m_%s' % box.name, dom, cod)
            cache[key] = mid if rng.random() < .5 else (rigid.Box('p_%s' % box.name, dom, dom) >> mid)
        return cache[key]
    F = rigid.Functor(ob=atoms if rng.random() < .5 else (lambda t: atoms[t]), ar=_img)
    dd = d @ rigid.Diagram.caps(a, a.l) >> rigid.Id(d.cod) @ rigid.Diagram.cups(a, a.l) if False else d
    trial('rigid.Functor', lambda: F(d))
    trial('rigid.Functor.cups', lambda: F(rigid.Diagram.cups(a, a.r)))
    trial('rigid.Functor.caps', lambda: F(rigid.Diagram.caps(a.r, a)))
    trial('rigid.Functor.swap', lambda: F(rigid.Diagram.swap(a, b)))
    trial('rigid.Functor.transpose', lambda: F(d.transpose()))
    trial('rigid.Functor.dagger', lambda: F(d[::-1]))
    trial('rigid.Functor.sum', lambda: F(d + d))
    # domain check of functor image (C04-ish but also well-typedness of result)
    # circuits
    n = rng.randint(0, 3)
    qt = qc.Ty(*[rng.choice([qc.bit, qc.qubit])[0] for _ in range(n)])
    trial('circuit.cups', lambda: qc.Circuit.cups(qt, qt))
    trial('circuit.caps', lambda: qc.Circuit.caps(qt, qt))
    trial('circuit.swap', lambda: qc.Circuit.swap(qt, qt[::-1] if False else qt))
    p2 = list(range(n)); rng.shuffle(p2)
    trial('circuit.permutation', lambda: qc.Circuit.permutation(p2, qt))
    trial('zx.cups', lambda: zx.Diagram.cups(rigid.PRO(n), rigid.PRO(n)))
    trial('zx.caps', lambda: zx.Diagram.caps(rigid.PRO(n), rigid.PRO(n)))
    trial('zx.swap', lambda: zx.Diagram.swap(n, rng.randint(0, 2)))
    trial('zx.permutation', lambda: zx.Diagram.permutation(p2))
    dim = tensor.Dim(*[rng.choice([2, 3]) for _ in range(n)])
    trial('tensor.cups', lambda: tensor.Diagram.cups(dim, dim.r))
    trial('tensor.caps', lambda: tensor.Diagram.caps(dim, dim.l))
    trial('tensor.swap', lambda: tensor.Diagram.swap(dim, dim))
    trial('circuit2zx', lambda: zx.circuit2zx(qg.Ket(0, 1) >> qg.CX >> qg.H @ qg.Rz(.3) >> qc.Id(1) @ qg.Bra(0)))
    CF = qc.Functor(ob={rigid.Ty('a'): rng.randint(0, 2), rigid.Ty('b'): rng.randint(0, 2)}, ar=lambda box: qc.Box('c_%s' % box.name, CFo(box.dom), CFo(box.cod)))
    CFo = qc.Functor(ob=CF.ob, ar={})
    trial('circuit.Functor', lambda: CF(d))
    trial('circuit.Functor.cups', lambda: CF(rigid.Diagram.cups(a, a.r)))
for k in sorted(st, key=str):
    if k[1] != 'ok': print(k, st[k])
print("ok", sum(v for k, v in st.items() if k[1] == 'ok'), "monitor", dict(CALLS), dict(FIRED))
