import sys, random, collections
src = open('exp1.py').read().split("rng = random.Random")[0]
exec(src)
def rand_d(rng, n):
    atoms = ('x', 'y'); dom = Ty(*[rng.choice(atoms) for _ in range(rng.randint(0, 3))]); d = Id(dom)
    for k in range(n):
        cod = d.cod; nin = rng.choice([0, 0, 1, 1, 2]); nin = min(nin, len(cod)); off = rng.randint(0, len(cod) - nin)
        nout = rng.choice([0, 0, 1, 2])
        name = rng.choice(['s', 'e']) if rng.random() < .4 else 'b%d' % k
        d = d >> Id(cod[:off]) @ Box(name, cod[off:off + nin], Ty(*[rng.choice(atoms) for _ in range(nout)])) @ Id(cod[off + nin:])
    return d
rng = random.Random(int(sys.argv[1])); st = collections.Counter()
for t in range(int(sys.argv[2])):
    d = rand_d(rng, rng.randint(1, 7)); c = components(d)
    for left in (False, True):
        # harness-driven trace with own visited set
        seen, cyc, steps = {d}, False, 0
        for s in d.normalize(left=left):
            steps += 1
            if s in seen: cyc = True; break
            seen.add(s)
            if steps > 5000: break
        try:
            nf = d.normal_form(left=left); out = 'value'
        except NotImplementedError:
            out = 'NIE'
        st[('conn' if c <= 1 else 'disc'), out, 'cycle' if cyc else 'ends'] += 1
        st['maxsteps'] = max(st['maxsteps'], steps)
print(sorted(st.items(), key=str))
