import sys, random, collections
from discopy.grammar import cfg
from discopy.grammar.cfg import CFG, Word
from discopy.monoidal import Ty, Box, Id

class FakeRandom:
    def __init__(self, rng): self.rng = rng; self.calls = 0
    def seed(self, s): self.seeded = s
    def shuffle(self, lst):
        self.calls += 1
        self.rng.shuffle(lst)

rng = random.Random(int(sys.argv[1])); st = collections.Counter()
for t in range(int(sys.argv[2])):
    syms = ['S', 'A', 'B', 'C'][:rng.randint(1, 4)]
    prods = []
    for k in range(rng.randint(1, 6)):
        cod = Ty(rng.choice(syms))
        dom = Ty(*[rng.choice(syms) for _ in range(rng.randint(0, 2))])
        if rng.random() < .4:
            prods.append(Word('w%d' % k, cod))
        else:
            prods.append(Box('R%d' % k, dom, cod))
    g = CFG(*prods)
    fake = FakeRandom(rng); cfg.random = fake
    start = Ty(rng.choice(syms))
    md, ms, mi = rng.randint(0, 8), rng.choice([0, 1, 3, None]), rng.randint(1, 30)
    rd = rng.random() < .5
    nt = [p for p in prods if rng.random() < .2]
    out = []
    try:
        for s in g.generate(start, ms, md, max_iter=mi, remove_duplicates=rd, not_twice=nt, seed=rng.choice([None, 3])):
            out.append(s)
            assert len(out) <= mi, "too many"
    except Exception as e:
        st[type(e).__name__ + str(e)[:60]] += 1
        continue
    st['n'] += 1; st['sent'] += len(out)
    for s in out:
        assert s.dom == Ty() and s.cod == start, (s.dom, s.cod)
        assert all(any(b is p or b == p for p in prods) for b in s.boxes)
        assert len(s) <= md, (len(s), md)
        for p in nt: assert s.boxes.count(p) <= 1, "not_twice violated"
    if ms: assert len(out) <= ms, (len(out), ms)
    if rd: assert len(set(out)) == len(out)
print(st)
