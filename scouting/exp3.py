import sys, random, collections, traceback, itertools
import numpy as np
from discopy.quantum import *
from discopy.quantum.circuit import Swap as CSwap, Circuit, bit, qubit, Id
from discopy.quantum.gates import Controlled, MixedScalar, ClassicalGate, Scalar
from discopy.quantum import tk as dtk
import pytket

def simulate(tkc):
    """ exact branching simulation: returns array P[bits] over all classical bits """
    nq, nb = tkc.n_qubits, len(tkc.bits)
    psi0 = np.zeros((2,) * nq if nq else (1,), dtype=complex); psi0[(0,) * (nq or 1)] = 1
    branches = [((0,) * nb, psi0)]
    for cmd in tkc.get_commands():
        name = cmd.op.type.name
        qs = [q.index[0] for q in cmd.qubits]
        if name == 'Measure':
            q, b = qs[0], cmd.bits[0].index[0]
            new = []
            for bits, psi in branches:
                for v in (0, 1):
                    proj = np.zeros_like(psi)
                    idx = [slice(None)] * nq; idx[q] = v
                    proj[tuple(idx)] = psi[tuple(idx)]
                    if not np.any(proj): continue
                    new.append((bits[:b] + (v,) + bits[b + 1:], proj))
            branches = new
            continue
        U = cmd.op.get_unitary().reshape((2,) * (2 * len(qs)))
        new = []
        for bits, psi in branches:
            out = np.tensordot(U, psi, (list(range(len(qs), 2 * len(qs))), qs))
            out = np.moveaxis(out, list(range(len(qs))), qs)
            new.append((bits, out))
        branches = new
    P = np.zeros((2,) * nb if nb else (1,))
    for bits, psi in branches:
        P[bits if nb else (0,)] += np.vdot(psi, psi).real
    return P

def tk_semantics(tkc):
    """ distribution over output bits according to recorded post-selection, scalar, post-processing """
    P = simulate(tkc)
    nb = len(tkc.bits)
    idx = tuple(tkc.post_selection.get(i, slice(None)) for i in range(nb))
    P = P[idx] if nb else P
    P = np.asarray(P, dtype=float) * tkc.scalar
    k = nb - len(tkc.post_selection)
    P = P.reshape((2,) * k if k else (1,))
    pp = tkc.post_processing
    if len(pp):
        from discopy.tensor import Tensor, Dim
        t = Tensor(Dim(1), Dim(*(k * (2,))), P) >> pp.eval()
        P = np.asarray(t.array, dtype=float)
    return P

def rand_circuit(rng, nsteps, allow=None):
    c = Id(0)
    # start with some kets
    for k in range(nsteps):
        cod = c.cod
        qpos = [i for i, x in enumerate(cod) if x.name == 'qubit']
        bpos = [i for i, x in enumerate(cod) if x.name == 'bit']
        adjq = [i for i in range(len(cod) - 1) if cod[i].name == cod[i + 1].name == 'qubit']
        adjb = [i for i in range(len(cod) - 1) if cod[i].name == cod[i + 1].name == 'bit']
        adjm = [i for i in range(len(cod) - 1) if cod[i].name != cod[i + 1].name]
        choices = ['ket', 'ket', 'scalar']
        if len(cod) < 4: choices += ['ket', 'bits0']
        else: choices = [x for x in choices if x != 'ket']
        if qpos: choices += ['g1', 'g1', 'rot', 'measure', 'measure_nd', 'discard', 'bra']
        if adjq: choices += ['g2', 'g2', 'crz', 'swapq']
        if adjb: choices += ['swapb', 'cgate2']
        if bpos: choices += ['discardb', 'cgate1']
        if adjm: choices += ['swapm']
        kind = rng.choice(choices)
        if allow and kind not in allow: continue
        if kind == 'measure_nd' and len(cod) >= 5: continue
        def at(i, box, n):
            return c >> Id(cod[:i]) @ box @ Id(cod[i + n:])
        if kind == 'ket':
            i = rng.randint(0, len(cod)); n = rng.randint(1, 2)
            c = at(i, Ket(*[rng.randint(0, 1) for _ in range(n)]), 0)
        elif kind == 'bits0':
            i = rng.randint(0, len(cod)); c = at(i, Bits(0), 0)
        elif kind == 'scalar':
            i = rng.randint(0, len(cod))
            s = rng.choice([scalar(0.5), scalar(1j), sqrt(2), MixedScalar(0.5), scalar(1 + 1j)])
            c = at(i, s, 0)
        elif kind == 'g1':
            c = at(rng.choice(qpos), rng.choice([H, S, T, X, Y, Z]), 1)
        elif kind == 'rot':
            c = at(rng.choice(qpos), rng.choice([Rx, Rz])(rng.choice([0.25, 0.5, 0.3, -0.7, 1.1])), 1)
        elif kind == 'g2':
            c = at(rng.choice(adjq), rng.choice([CX, CZ]), 2)
        elif kind == 'crz':
            c = at(rng.choice(adjq), CRz(rng.choice([0.25, 0.5, 0.3, -0.7])), 2)
        elif kind == 'swapq':
            c = at(rng.choice(adjq), SWAP, 2)
        elif kind == 'swapb':
            c = at(rng.choice(adjb), CSwap(bit, bit), 2)
        elif kind == 'swapm':
            i = rng.choice(adjm); c = at(i, CSwap(cod[i:i+1], cod[i+1:i+2]), 2)
        elif kind == 'measure':
            c = at(rng.choice(qpos), Measure(), 1)
        elif kind == 'measure_nd':
            c = at(rng.choice(qpos), Measure(destructive=False), 1)
        elif kind == 'discard':
            c = at(rng.choice(qpos), Discard(), 1)
        elif kind == 'discardb':
            c = at(rng.choice(bpos), Discard(bit), 1)
        elif kind == 'bra':
            c = at(rng.choice(qpos), Bra(rng.randint(0, 1)), 1)
        elif kind == 'cgate1':
            g = rng.choice([ClassicalGate('not', 1, 1, [0, 1, 1, 0]), Copy(),
                            ClassicalGate('rnd', 1, 1, [.5, .5, .25, .75])])
            c = at(rng.choice(bpos), g, 1)
        elif kind == 'cgate2':
            g = rng.choice([ClassicalGate('xor', 2, 1, [1, 0, 0, 1, 0, 1, 1, 0]),
                            ClassicalGate('cnot', 2, 2, [1,0,0,0, 0,1,0,0, 0,0,0,1, 0,0,1,0])])
            c = at(rng.choice(adjb), g, 2)
    return c

if __name__ == '__main__':
    rng = random.Random(int(sys.argv[1])); st = collections.Counter()
    allow = set(sys.argv[3].split(',')) if len(sys.argv) > 3 else None
    for t in range(int(sys.argv[2])):
        c = rand_circuit(rng, rng.randint(1, 8), allow)
        st['n'] += 1
        try:
            ref = c.init_and_discard().eval(mixed=True)
            ref = np.asarray(ref.array, dtype=complex)
            tkc = c.to_tk()
            got = tk_semantics(tkc)
            if ref.shape != got.shape:
                key = 'shape'
            elif not np.allclose(ref, got, atol=1e-9):
                key = 'MISMATCH'
            else:
                key = 'ok'
            st[key] += 1
            if key != 'ok' and st[key] <= 4:
                print(key, "\n  c =", c, "\n  tk =", repr(tkc), "\n  ref=", ref.flatten().round(3), "\n  got=", got.flatten().round(3))
        except Exception as e:
            k = type(e).__name__ + ':' + str(e)[:50]
            st[k] += 1
            if st[k] <= 1:
                print("EXC", k, "\n  c =", c); traceback.print_exc(limit=4)
    print(st)
