import random, sys, itertools, collections
from discopy.monoidal import Ty, Box, Id, Diagram
from discopy.rewriting import InterchangerError

def rand_diagram(rng, nboxes, atoms=('x','y'), maxw=3, allow_empty=True):
    dom = Ty(*[rng.choice(atoms) for _ in range(rng.randint(0, maxw))])
    d = Id(dom)
    for k in range(nboxes):
        cod = d.cod
        lo = 0 if allow_empty else 1
        nin = rng.randint(lo, min(2, len(cod)))
        if len(cod) < nin: nin = len(cod)
        off = rng.randint(0, len(cod) - nin)
        nout = rng.randint(lo, 2)
        if nin == 0 and nout == 0 and rng.random() < 0.8: nout = 1
        b = Box('b%d' % k, cod[off:off+nin], Ty(*[rng.choice(atoms) for _ in range(nout)]))
        d = d >> Id(cod[:off]) @ b @ Id(cod[off+nin:])
    return d

def components(d):
    # union-find over boxes connected by wires
    n = len(d)
    parent = list(range(n))
    def find(a):
        while parent[a] != a:
            parent[a] = parent[parent[a]]; a = parent[a]
        return a
    scan = [None] * len(d.dom)  # producer of each wire
    for i, (box, off) in enumerate(zip(d.boxes, d.offsets)):
        for p in scan[off:off+len(box.dom)]:
            if p is not None:
                parent[find(p)] = find(i)
        scan = scan[:off] + [i] * len(box.cod) + scan[off+len(box.dom):]
    return len({find(i) for i in range(n)})

def eqclass(d, cap=3000):
    seen = {d}; todo = [d]
    while todo and len(seen) < cap:
        cur = todo.pop()
        for i in range(len(cur) - 1):
            for left in (False, True):
                try:
                    nxt = cur.interchange(i, i + 1, left=left)
                except InterchangerError:
                    continue
                if nxt not in seen:
                    seen.add(nxt); todo.append(nxt)
    return seen

rng = random.Random(int(sys.argv[1]) if len(sys.argv) > 1 else 0)
stats = collections.Counter()
for trial in range(int(sys.argv[2]) if len(sys.argv) > 2 else 300):
    d = rand_diagram(rng, rng.randint(1, 6))
    nc = components(d)
    cls = eqclass(d)
    full = len(cls) < 3000
    stats['n'] += 1; stats['connected'] += nc <= 1; stats['clsmax'] = max(stats['clsmax'], len(cls))
    for left in (False, True):
        nfs = set()
        for m in cls:
            try:
                nf = m.normal_form(left=left)
                nfs.add(nf)
                assert (not full) or nf in cls, "nf not in class " + repr(d)
                assert nf.normal_form(left=left) == nf, "not idempotent"
            except NotImplementedError:
                nfs.add('NIE')
                if nc <= 1:
                    print("NIE on connected", repr(m)); stats['nie_conn'] += 1
        if nc <= 1 and len(nfs) != 1:
            stats['noncanon_conn'] += 1
            print("NONCANON connected left=%s" % left, len(cls), [str(x) for x in nfs][:3])
        if nc > 1 and len(nfs) != 1:
            stats['noncanon_disc'] += 1
print(stats)
