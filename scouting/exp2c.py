import sys, random, collections
src = open(__import__('os').path.join(__import__('os').path.dirname(__import__('os').path.abspath(__file__)), 'exp2.py')).read().split("rng = random.Random")[0]
exec(src)
def components(d):
    n = len(d); parent = list(range(n))
    def find(a):
        while parent[a] != a:
            parent[a] = parent[parent[a]]; a = parent[a]
        return a
    scan = [None] * len(d.dom)
    for i, (box, off) in enumerate(zip(d.boxes, d.offsets)):
        for p in scan[off:off+len(box.dom)]:
            if p is not None: parent[find(p)] = find(i)
        scan = scan[:off] + [i] * len(box.cod) + scan[off+len(box.dom):]
    return len({find(i) for i in range(n)})
rng = random.Random(int(sys.argv[1])); st = collections.Counter()
for t in range(int(sys.argv[2])):
    d = rand_rigid(rng, rng.randint(1, 8))
    c = components(d)
    try:
        nf = d.normal_form(); st['ok', min(c,2)] += 1
        # residual snakes?
    except NotImplementedError:
        st['NIE', min(c,2)] += 1
        if c <= 1: print("NIE connected:", d)
print(st)
