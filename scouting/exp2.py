import random, sys, collections, traceback
import numpy as np
from discopy import rigid, tensor
from discopy.rigid import Ty, Ob, Box, Id, Cup, Cap, Diagram

def rand_rigid(rng, nsteps):
    atoms = ['a', 'b']
    def rand_ob():
        return Ob(rng.choice(atoms), rng.choice([0, 0, 0, 1, -1, 2, -2]))
    dom = Ty(*[rand_ob() for _ in range(rng.randint(0, 3))])
    d = Id(dom)
    nb = 0
    for k in range(nsteps):
        cod = d.cod
        kind = rng.choice(['box', 'cap', 'cap', 'cup', 'cup', 'cup'])
        if kind == 'cup':
            cands = [i for i in range(len(cod) - 1) if cod[i:i+1].r == cod[i+1:i+2]]
            if not cands:
                kind = 'cap'
            else:
                i = rng.choice(cands)
                d = d >> Id(cod[:i]) @ Cup(cod[i:i+1], cod[i+1:i+2]) @ Id(cod[i+2:])
                continue
        if kind == 'cap':
            if len(cod) >= 6: kind = 'box'
            else:
                off = rng.randint(0, len(cod))
                o = Ty(rand_ob())
                l, r = (o, o.l) if rng.random() < .5 else (o, o.r)
                # Cap(left,right) needs left == right.r or left.r == right
                d = d >> Id(cod[:off]) @ Cap(l, r) @ Id(cod[off:])
                continue
        nin = rng.randint(0, min(2, len(cod)))
        off = rng.randint(0, len(cod) - nin)
        nout = rng.randint(0, 2)
        if len(cod) - nin + nout > 6: nout = 0
        b = Box('f%d' % nb, cod[off:off+nin], Ty(*[rand_ob() for _ in range(nout)]))
        nb += 1
        if rng.random() < .2 and False:
            b = b.dagger()
        d = d >> Id(cod[:off]) @ b @ Id(cod[off+nin:])
    return d

def welltyped(d):
    scan = d.dom
    assert len(d.boxes) == len(d.offsets) == len(d.layers)
    for (box, off), (l, b, r) in zip(zip(d.boxes, d.offsets), d.layers):
        assert scan[off:off+len(box.dom)] == box.dom, "box dom mismatch"
        assert l == scan[:off] and r == scan[off+len(box.dom):] and b == box, "layer mismatch"
        scan = scan[:off] @ box.cod @ scan[off+len(box.dom):]
    assert scan == d.cod, "cod mismatch"

def functor(rng, d):
    ar = {}
    class AR(dict):
        pass
    cache = {}
    def arf(box):
        key = (box.name, repr(box.dom), repr(box.cod))
        if key not in cache:
            n = 2 ** (len(box.dom) + len(box.cod))
            cache[key] = np.array([rng.randint(-2, 2) for _ in range(n)])
        return cache[key]
    return tensor.Functor(ob=lambda t: 2, ar=arf)

rng = random.Random(int(sys.argv[1]))
stats = collections.Counter()
for trial in range(int(sys.argv[2])):
    d = rand_rigid(rng, rng.randint(1, 8))
    welltyped(d)
    F = functor(rng, d)
    ref = F(d)
    stats['n'] += 1
    try:
        steps = []
        seen = set()
        for k, s in enumerate(d.normalize()):
            steps.append(s)
            if s in seen or k > 400:
                stats['loop'] += 1
                break
            seen.add(s)
        for s in steps:
            welltyped(s)
            assert (s.dom, s.cod) == (d.dom, d.cod), "dom/cod changed"
            assert F(s) == ref, "denotation changed"
        stats['steps'] += len(steps)
        nf = d.normal_form()
        stats['ok'] += 1
    except NotImplementedError:
        stats['NIE'] += 1
    except Exception as e:
        stats[type(e).__name__ + ':' + str(e)[:40]] += 1
        if stats[type(e).__name__ + ':' + str(e)[:40]] <= 2:
            print("FAIL", type(e).__name__, e, "\n   d =", d)
print(stats)
