import sys, random, collections, traceback
import numpy as np
from collections import Counter
from exp3 import simulate, rand_circuit
from discopy.quantum import *
from discopy.quantum.circuit import Circuit, Sum

class Result:
    def __init__(self, counts): self._c = counts
    def get_counts(self): return self._c
class SimBackend:
    """ exact-frequency backend with scheduler-controlled representation and completion order """
    def __init__(self, rng, fail_at=None):
        self.rng, self.jobs, self.log, self.calls, self.fail_at = rng, {}, [], 0, fail_at
    def _tick(self, what):
        self.calls += 1
        if self.fail_at == self.calls: raise RuntimeError("SimBackend: injected failure in " + what)
    def process_circuits(self, circuits, n_shots=None, seed=None):
        self._tick('process_circuits')
        handles = []
        for c in circuits:
            h = ('job', self.rng.getrandbits(32))
            self.jobs[h] = (c, n_shots); handles.append(h)
        self.log.append(('submit', len(circuits), n_shots, seed))
        return handles if self.rng.random() < .5 else tuple(handles)
    def get_result(self, h):
        self._tick('get_result')
        c, n_shots = self.jobs[h]
        P = simulate(c); nb = len(c.bits)
        items = []
        for idx in np.ndindex(*P.shape) if nb else [()]:
            p = float(P[idx if nb else (0,)])
            if p == 0 and self.rng.random() < .5: continue
            key = tuple((np.int64(b) if self.rng.random() < .3 else int(b)) for b in (idx if nb else ()))
            items.append((key, p * (n_shots or 1)))
        self.rng.shuffle(items)
        cls = Counter if self.rng.random() < .5 else dict
        return Result(cls(dict(items)))

def dist(counts, n):
    a = np.zeros((2,) * n if n else (1,))
    for k, v in counts.items(): a[tuple(int(b) for b in k) if n else (0,)] += float(np.asarray(v).reshape(-1)[0].real)
    return a

rng = random.Random(int(sys.argv[1])); st = collections.Counter()
allow = set(sys.argv[3].split(',')) if len(sys.argv) > 3 else None
for t in range(int(sys.argv[2])):
    cs = [rand_circuit(rng, rng.randint(1, 7), allow) for _ in range(rng.randint(1, 3))]
    be = SimBackend(rng)
    st['n'] += 1
    try:
        n_shots = rng.choice([1, 100, 1024, 8192])
        got = cs[0].get_counts(*cs[1:], backend=be, n_shots=n_shots, seed=rng.choice([None, 7]))
        got = [got] if len(cs) == 1 else got
        ok = True
        for c, g in zip(cs, got):
            loc = c.get_counts()
            n = len(c.init_and_discard().cod)
            if not np.allclose(dist(g, n), dist(loc, n), atol=1e-9): ok = False
        # eval path
        ev = cs[0].eval(*cs[1:], backend=be)
        ev = [ev] if len(cs) == 1 else ev
        for c, e in zip(cs, ev):
            loc = c.init_and_discard().eval(mixed=True)
            if np.asarray(e.array).shape != np.asarray(loc.array).shape or not np.allclose(np.asarray(e.array, dtype=complex), np.asarray(loc.array, dtype=complex), atol=1e-9): ok = False
        st['ok' if ok else 'MISMATCH'] += 1
        if not ok and st['MISMATCH'] <= 3:
            print("MISMATCH", [str(c) for c in cs], "\n got", got, "\n loc", [c.get_counts() for c in cs], "\n ev", ev)
    except Exception as e:
        k = type(e).__name__ + ':' + str(e)[:60]; st[k] += 1
        if st[k] <= 1: print("EXC", k, [str(c) for c in cs]); traceback.print_exc(limit=4)
print(st)
