import sys, random, collections, time
import numpy as np
src = open('exp2.py').read().split("rng = random.Random")[0]
exec(src)
from discopy import rigid, tensor, monoidal

class M2:
    def __init__(self, rng, dims=(1, 2, 3)):
        self.rng, self.dimof, self.tens = rng, {}, {}
        self.dims = dims
    def dim(self, ob):   # ob: rigid.Ob ; same dim for all adjoints
        if ob.name not in self.dimof: self.dimof[ob.name] = self.rng.choice(self.dims)
        return self.dimof[ob.name]
    def tdim(self, ty): 
        n = 1
        for ob in ty.objects: n *= self.dim(ob)
        return n
    def box(self, box):
        if isinstance(box, rigid.Cup):
            d = self.dim(box.dom.objects[0]); return np.eye(d, dtype=np.float64).reshape(d * d, 1)
        if isinstance(box, rigid.Cap):
            d = self.dim(box.cod.objects[0]); return np.eye(d, dtype=np.float64).reshape(1, d * d)
        if isinstance(box, monoidal.Swap):
            a, b = self.dim(box.left.objects[0]), self.dim(box.right.objects[0])
            m = np.zeros((a * b, b * a), dtype=np.float64)
            for i in range(a):
                for j in range(b): m[i * b + j, j * a + i] = 1
            return m
        if box.is_dagger:
            return self.box(box.dagger()).T
        key = (box.name, tuple((o.name, o.z) for o in box.dom.objects), tuple((o.name, o.z) for o in box.cod.objects))
        if key not in self.tens:
            r, c = self.tdim(box.dom), self.tdim(box.cod)
            self.tens[key] = np.array([[self.rng.randint(-2, 2) for _ in range(c)] for _ in range(r)], dtype=np.float64).reshape(r, c)
        return self.tens[key]
    def eval(self, d):
        m = np.eye(self.tdim(d.dom), dtype=np.float64)
        scan = d.dom
        for box, off in zip(d.boxes, d.offsets):
            l, r = self.tdim(scan[:off]), self.tdim(scan[off + len(box.dom):])
            layer = np.kron(np.kron(np.eye(l, dtype=np.float64), self.box(box)), np.eye(r, dtype=np.float64))
            bound = np.abs(m).astype(float).dot(np.abs(layer).astype(float)).max() if m.size and layer.size else 0
            assert bound < 2 ** 52, "overflow guard"
            m = m.dot(layer)
            scan = scan[:off] @ box.cod @ scan[off + len(box.dom):]
        return m

rng = random.Random(int(sys.argv[1])); st = collections.Counter(); tmax = 0; vmax = 0
t0 = time.time()
for t in range(int(sys.argv[2])):
    d = rand_rigid(rng, rng.randint(1, 10))
    w = max([len(d.dom)] + [len(l.cod) for l in d.layers.boxes])
    m2 = M2(random.Random(rng.getrandbits(32)), dims=(1, 2, 3) if w <= 4 else (1, 2, 2))
    ref = m2.eval(d)
    vmax = max(vmax, max([abs(int(x)) for x in ref.flatten()] + [0]))
    # compare with discopy's functor using same interpretation
    F = tensor.Functor(ob=lambda ty: m2.dim(ty[0]), ar=lambda box: np.array(m2.box(box)).reshape(-1))
    got = np.asarray(F(d).array).reshape(ref.shape)
    st['agree' if (ref == got).all() else 'DISAGREE'] += 1
    # invariance along normalize trace
    try:
        for k, s in enumerate(d.normalize()):
            if k > 60: break
            assert (m2.eval(s) == ref).all(), "denotation changed"
            st['steps'] += 1
    except Exception as e:
        st[type(e).__name__] += 1
print(st, "max |entry|", vmax, "%.1fs" % (time.time() - t0))
