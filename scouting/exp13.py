import sys, random, collections
src = open('exp1.py').read().split("rng = random.Random")[0]
exec(src)
rng = random.Random(int(sys.argv[1])); st = collections.Counter()
for t in range(int(sys.argv[2])):
    d = rand_diagram(rng, rng.randint(0, 6))
    cls = eqclass(d); full = len(cls) < 3000
    try:
        f = d.foliation().flatten()
        *steps, slices = d.foliate(yield_slices=True)
        last = steps[-1] if steps else d
        st['n'] += 1
        if full:
            st['flatten_in_class', f in cls] += 1
            st['last_in_class', last in cls] += 1
            st['steps_in_class', all(s in cls for s in steps)] += 1
            if f not in cls and st['flatten_in_class', False] <= 3: print("FLATTEN OUT", d, "->", f)
        st['flatten==last', f == last] += 1
        st['depth', d.depth() == len(slices)] += 1
    except Exception as e:
        k = type(e).__name__ + str(e)[:60]; st[k] += 1
        if st[k] <= 2: print("EXC", k, repr(d))
print(st)
