import sys, random, collections, traceback
from discopy import biclosed, rigid
from discopy.biclosed import Ty, Over, Under, Box, Id, FA, BA, FC, BC, FX, BX, Curry, biclosed2rigid, biclosed2rigid_ob
from discopy.grammar.ccg import cat2ty, tree2diagram
from discopy.grammar import pregroup
from discopy.grammar.pregroup import Word, eager_parse, brute_force

def rty(rng, depth=2, maxlen=2):
    """ random biclosed type: tensor of up to maxlen factors, each atomic or slash """
    def factor(d):
        if d == 0 or rng.random() < .4:
            return Ty(rng.choice('xyz'))
        l, r = rty(rng, d - 1, maxlen), rty(rng, d - 1, maxlen)
        return (l << r) if rng.random() < .5 else (l >> r)
    n = rng.randint(1, maxlen)
    t = Ty()
    for _ in range(n): t = t @ factor(depth)
    return t

def nwires(t):
    """ independent wire count/type of the rigid image: list of (name, z) """
    if isinstance(t, Over):   # left << right  ->  F(left) @ F(right).l
        return img(t.left) + adj(img(t.right), -1)
    if isinstance(t, Under):  # left >> right  ->  F(left).r @ F(right)
        return adj(img(t.left), +1) + img(t.right)
    return None
def adj(ws, dz): return [(n, z + dz) for n, z in reversed(ws)]
def img(t):
    if isinstance(t, (Over, Under)): return nwires(t)
    out = []
    for ob in t.objects:
        if isinstance(ob, (Over, Under)): out += nwires(ob)
        else: out.append((ob.name, 0))
    return out
def as_list(rt): return [(o.name, o.z) for o in rt.objects]

rng = random.Random(int(sys.argv[1])); st = collections.Counter()
for t in range(int(sys.argv[2])):
    a, b, c = rty(rng), rty(rng), rty(rng)
    kind = rng.choice(['FA', 'BA', 'FC', 'BC', 'FX', 'BX', 'Curry', 'CurryL', 'box', 'ty'])
    try:
        if kind == 'FA': d = FA(a << b)
        elif kind == 'BA': d = BA(a >> b)
        elif kind == 'FC': d = FC(a << b, b << c)
        elif kind == 'BC': d = BC(a >> b, b >> c)
        elif kind == 'FX': d = FX(a << b, c >> b)
        elif kind == 'BX': d = BX(a << b, a >> c)
        elif kind == 'Curry': d = Curry(Box('f', a @ b, c), n_wires=len(b))
        elif kind == 'CurryL': d = Curry(Box('f', a @ b, c), n_wires=len(a), left=True)
        elif kind == 'box': d = Box('g', a, b) @ Id(c) >> Box('h', b @ c, a)
        elif kind == 'ty':
            got = as_list(biclosed2rigid_ob(a)); exp = img(a)
            st['ty', got == exp] += 1
            if got != exp and st['ty', False] <= 3: print("TY", a, got, exp)
            continue
        r = biclosed2rigid(d)
        okd, okc = as_list(r.dom) == img(d.dom), as_list(r.cod) == img(d.cod)
        # well-typed
        s = r.dom
        for box, off in zip(r.boxes, r.offsets):
            assert s[off:off + len(box.dom)] == box.dom; s = s[:off] @ box.cod @ s[off + len(box.dom):]
        assert s == r.cod
        st[kind, okd and okc] += 1
        if not (okd and okc) and st[kind, False] <= 2:
            print("MISMATCH", kind, "\n d.dom", d.dom, "-> got", r.dom, "exp", img(d.dom), "\n d.cod", d.cod, "-> got", r.cod, "exp", img(d.cod))
    except Exception as e:
        k = (kind, type(e).__name__ + ':' + str(e)[:60]); st[k] += 1
        if st[k] <= 1: print("EXC", k, "a=", a, "b=", b, "c=", c); traceback.print_exc(limit=3)
for k in sorted(st, key=str): print(k, st[k])
