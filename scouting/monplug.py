# pytest plugin: prototype of the DISCOPY_VERIF monitor, installed by monkeypatching (no repo change)
import collections
from discopy import monoidal, cat
FIRED = collections.Counter()
CALLS = collections.Counter()
_orig = monoidal.Diagram.__init__
def scan_ok(self):
    dom, cod, boxes, offsets, layers = self._dom, self._cod, self._boxes, self._offsets, self._layers
    if not (len(boxes) == len(offsets) == len(layers)):
        return "length mismatch %d %d %d" % (len(boxes), len(offsets), len(layers))
    scan = dom
    if layers.dom != dom: return "layers.dom != dom"
    if layers.cod != cod: return "layers.cod != cod"
    for k, (box, off) in enumerate(zip(boxes, offsets)):
        left, b, right = layers[k] if False else tuple(layers.boxes[k])
        if scan[off:off + len(box.dom)] != box.dom: return "box %d dom mismatch" % k
        if left != scan[:off] or right != scan[off + len(box.dom):] or b is not box and b != box:
            return "layer %d mismatch" % k
        scan = scan[:off] @ box.cod @ scan[off + len(box.dom):]
    if scan != cod: return "scan != cod"
    return None
def patched(self, dom, cod, boxes, offsets, layers=None):
    _orig(self, dom, cod, boxes, offsets, layers=layers)
    CALLS['with_layers' if layers is not None else 'scanned'] += 1
    if layers is not None:
        try:
            msg = scan_ok(self)
        except Exception as e:
            msg = "monitor exception %r" % e
        if msg:
            FIRED[msg] += 1
            import traceback
            if FIRED[msg] <= 2:
                print("\nMONITOR FIRED:", msg, type(self).__name__); traceback.print_stack(limit=8)
monoidal.Diagram.__init__ = patched
def pytest_sessionfinish(session, exitstatus):
    print("\nMONITOR calls:", dict(CALLS), "fired:", dict(FIRED))
