import sys, random, collections
from discopy import monoidal, rigid, tensor
from discopy.monoidal import Ty, Box, Id
from discopy.rewriting import InterchangerError

def rand_diagram(rng, nboxes, maxw=4):
    atoms = ('x', 'y')
    dom = Ty(*[rng.choice(atoms) for _ in range(rng.randint(0, maxw))])
    d = Id(dom)
    for k in range(nboxes):
        cod = d.cod
        nin = rng.randint(0, min(2, len(cod)))
        off = rng.randint(0, len(cod) - nin)
        nout = rng.choice([0, 0, 1, 1, 2])
        name = rng.choice(['f', 'g']) if rng.random() < .3 else 'b%d' % k
        b = Box(name, cod[off:off+nin], Ty(*[rng.choice(atoms) for _ in range(nout)]))
        d = d >> Id(cod[:off]) @ b @ Id(cod[off+nin:])
    return d

# model: list of (name, ndom, ncod), offsets
def model_of(d):
    return [(b.name, tuple(map(str, b.dom)), tuple(map(str, b.cod))) for b in d.boxes], list(d.offsets)

def m_adjacent(boxes, offs, i, left):
    """ exchange boxes i, i+1; returns new (boxes, offs) or None """
    (n0, d0, c0), (n1, d1, c1) = boxes[i], boxes[i + 1]
    o0, o1 = offs[i], offs[i + 1]
    box0_left = o1 >= o0 + len(c0)     # box1 entirely right of box0's outputs
    box0_right = o0 >= o1 + len(d1)    # box0 entirely right of box1's inputs
    if left and box0_left:
        no1, no0 = o1 - len(c0) + len(d0), o0
    elif box0_right:
        no1, no0 = o1, o0 - len(d1) + len(c1)
    elif box0_left:
        no1, no0 = o1 - len(c0) + len(d0), o0
    else:
        return None
    return boxes[:i] + [boxes[i + 1], boxes[i]] + boxes[i + 2:], offs[:i] + [no1, no0] + offs[i + 2:]

def m_interchange(boxes, offs, i, j, left):
    n = len(boxes)
    if not 0 <= i < n or not 0 <= j < n: return 'IndexError'
    if i == j: return boxes, offs
    step = 1 if j > i else -1
    k = i
    while k != j:
        a = min(k, k + step)
        r = m_adjacent(boxes, offs, a, left)
        if r is None: return 'InterchangerError'
        boxes, offs = r; k += step
    return boxes, offs

rng = random.Random(int(sys.argv[1])); st = collections.Counter()
for t in range(int(sys.argv[2])):
    d = rand_diagram(rng, rng.randint(0, 7))
    for _ in range(8):
        n = len(d)
        i, j = rng.randint(-1, n), rng.randint(-1, n)
        left = rng.random() < .5
        exp = m_interchange(*model_of(d), i, j, left)
        try:
            got = d.interchange(i, j, left=left)
            gk = model_of(got)
            gk = (gk[0], gk[1])
        except InterchangerError:
            gk = 'InterchangerError'
        except IndexError:
            gk = 'IndexError'
        if isinstance(exp, tuple): exp = (exp[0], exp[1])
        key = 'agree' if gk == exp else 'DISAGREE'
        st[key] += 1; st[('kind', exp if isinstance(exp, str) else 'value')] += 1
        if key == 'DISAGREE' and st[key] <= 5:
            print("DISAGREE", d, i, j, left, "\n exp", exp, "\n got", gk)
        if not isinstance(gk, str) and rng.random() < .7:
            d = got
print(st)
