#!/usr/bin/env python3
"""Regenerates MANIFEST.json from the tables below (kept in one place so the
manifest stays valid while checks are added)."""
import json, subprocess

CLAIMED = {
 "C05": dict(engine="rewrite",
   text="Seeded search over histories of interchange requests on random diagrams (incl. degenerate shapes, "
        "illegal and out-of-range requests, interruption inside the call, scribbling on returned lists); every "
        "outcome compared with the independent model M1 (exchange legality, resulting boxes/offsets) and every "
        "returned diagram with the exact integer semantics M2. Clothing: monoidal, rigid (with cups/caps), tensor, "
        "circuit, zx, cartesian; boxes with data, daggers, equal names, shared objects, boxes that are themselves diagrams. Every run in a fresh "
        "forked process; violations are minimised (ddmin) and replayed. Evidence over the explored histories, not proof.",
   note="Trusted: M1 exchange rule (DESIGN 4), M2 integer functors (2 per move), sizes <= 9 boxes / 6 wires. "
        "A refusal that depends on the tie-break between two legal sides (scalar/effect directly above a state at "
        "the same offset) is accepted either way.",
   ref="5.1"),
 "C06": dict(engine="rewrite",
   text="Confluence checked as schedule-independence: walkers moved by scheduled legal interchanges, M1-enumerated "
        "interchanger classes, lazy normalisers stepped/interleaved/abandoned, every yielded step validated as one "
        "legal interchange and re-checked after the generator has moved on, the same request asked twice must "
        "answer the same, termination reporting decided by deterministic line budgets, interruption followed by "
        "further use. Exploration.",
   note="Trusted: M1 class enumeration (capped), M1 connectivity, M2; membership asserted only for fully enumerated classes.",
   ref="5.2"),
 "C07": dict(engine="rewrite",
   text="Lazy snake-removal traces on random rigid diagrams stepped under a scheduler with abandonment and "
        "interruption; every step must be one legal interchange or the deletion of one M1-valid snake, with "
        "dom/cod, well-typedness and exact integer denotation preserved; NotImplementedError only when M1 says "
        "disconnected. Inputs: random growth, snake templates with obstructions, look-alike non-snakes, diagrams built "
        "by the library's own transposes/cups, self-dual PRO types, one object at several positions.",
   note="Trusted: M1 snake follower, M2 rigid semantics (same dimension for all adjoints).",
   ref="5.3"),
 "C01": dict(engine="session",
   text="Session simulator over all diagram classes with the in-library invariant monitor re-scanning every fast-path "
        "construction (including intermediate diagrams no caller sees), caller-side scans of every returned value, "
        "ill-typed requests (F1), interruption (F5) followed by probe requests, callback failure (F3), scribbling "
        "(F7), a second PRNG seam (random_tiling); plus slices of the three other engines policed by the monitor. "
        "Exploration.",
   note="Trusted: the monitor's scan (sim/world.py), the M1 type scan; hooks DISCOPY_VERIF in Diagram/Arrow constructors.",
   ref="5.4"),
 "C13": dict(engine="backend",
   text="Backend peer simulator: discopy clients submit circuits to an in-process discrete-event backend that completes "
        "jobs out of order, varies result representation, and fails; results compared with an exact simulator (M3) of the "
        "exported tket circuit and with local mixed evaluation; the peer may keep and re-serve result objects; raw "
        "frequencies; compilation passes that change the circuit and then fail; near-duplicate circuits in one batch; a peer that takes another number of shots than asked; the same request repeated against a caching peer, with and without post-selection; "
        "interruption of a call followed by the same call. Exploration.",
   note="Trusted: pytket Op.get_unitary for gate matrices, M3 branch simulator; <= 5 wires, <= 10 boxes; atol 1e-9.",
   ref="5.5"),
 "C18": dict(engine="grammar",
   text="CFG.generate under an adversarial PRNG owned by the simulator (every shuffle a scheduler decision), generators "
        "interleaved, interrupted and abandoned, sentences re-checked after the generator has moved on; parser and "
        "biclosed translation clauses ride along as plain oracles (M4). Exploration.",
   note="Trusted: M4 derivation checker and slash-type wire count.",
   ref="5.6"),
}

NA = {
 "C02": "algebraic laws (== between results of >>, @, dagger, slicing, +): equations between pure calls on immutable values; no schedule, fault, peer or clock can change either side, so there is nothing for a simulator to decide",
 "C03": "equality/hash/repr coherence: pure functions of one or two values; the per-process hash salt cannot separate values with equal repr",
 "C04": "functoriality: an equation between pure calls; callable maps are an input, not a fault surface of the statement",
 "C08": "tensor algebra: numpy axis arithmetic on given arrays; pure",
 "C09": "evaluation = compositional meaning: equivalence of two pure programs on one input; engine R uses its own evaluator (M2) and neither relies on nor decides it",
 "C10": "swaps/permutations: pure constructors",
 "C11": "pure circuit evaluation: pure numerics",
 "C12": "mixed evaluation / Born rule: pure numerics; local get_counts()/measure() use no backend and no PRNG",
 "C14": "substitution commutes with evaluation: pure; the numpy/sympy switch depends only on the argument",
 "C15": "gradients: pure symbolic/numeric computation",
 "C16": "circuit->ZX: pure translation",
 "C17": "pyzx export/import: pure translation into/out of a passive data structure; the adapter is a shim with no behaviour to schedule or fail",
 "C19": "cartesian evaluation: pure given the box functions; no clause concerns impure or failing callbacks",
 "C20": "drawing layout: coordinates are a pure function of the diagram; the stream is written once after all computation and the statement is silent about I/O errors",
}

TECH = "deterministic simulation with fault injection: seeded search over schedules/fault sequences, replay files, ddmin"


def main(active):
    hook = subprocess.run(["git", "-C", "/repo", "log", "--format=%H", "--grep=^verif hook"],
                          capture_output=True, text=True).stdout.split()
    checks = []
    for pid in sorted(CLAIMED):
        if pid not in active:
            continue
        c = CLAIMED[pid]
        checks.append({
            "property_id": pid,
            "quick_cmd": "./check %s --tier quick" % pid,
            "thorough_cmd": "./check %s --tier thorough" % pid,
            "evidence_file": "/verif/evidence/%s.json" % pid,
            "replay_cmd_template": "./check %s --replay {path}" % pid,
            "engine": c["engine"],
            "level_claimed": {"category": "exploration", "text": c["text"], "design_ref": "DESIGN.md " + c["ref"]},
            "level_note": c["note"],
            "technique": TECH,
        })
    na = [{"property_id": k, "reason": v} for k, v in sorted(NA.items())]
    for pid in sorted(CLAIMED):
        if pid not in active:
            na.append({"property_id": pid, "reason": "check under construction in this round (planned engine: %s); "
                       "not claimed until it runs clean" % CLAIMED[pid]["engine"]})
    engines = {}
    for pid in active:
        engines.setdefault(CLAIMED[pid]["engine"], []).append(pid)
    man = {
        "version": 1,
        "setup_cmd": "./setup.sh",
        "hooks": {
            "guard": "DISCOPY_VERIF",
            "enable": "checks set DISCOPY_VERIF=1 before importing discopy from /repo's working tree (sim/world.py); "
                      "nothing is compiled",
            "baseline_off_cmd": "cd /repo && env -u DISCOPY_VERIF /venv/bin/python -m pytest -ra -q -p no:cacheprovider "
                                "--timeout=900 --continue-on-collection-errors",
            "source_commits": hook,
            "add_only": True,
        },
        "engines": [{"name": n, "path": "sim/engines/%s.py" % n, "serves_properties": sorted(p),
                     "kind_free_text": "seeded deterministic simulator (own scheduler, fault injector, replay, ddmin)"}
                    for n, p in sorted(engines.items())],
        "checks": checks,
        "not_applicable": sorted(na, key=lambda e: e["property_id"]),
        "notes": "All checks: ./check <id> --tier quick|thorough; VERIF_SEED honoured; PYTHONHASHSEED pinned by re-exec. "
                 "Known findings: known_findings.json (never written at run time).",
    }
    json.dump(man, open("MANIFEST.json", "w"), indent=1)
    print("MANIFEST.json written:", [c["property_id"] for c in checks])


if __name__ == "__main__":
    import sys
    main(sys.argv[1:])
