#!/bin/sh
# Soundness soak: quick (or thorough) tier of every claimed check at several VERIF_SEEDs;
# outputs go to a scratch dir, one summary line per (seed, property).  usage: tools_soak.sh tier seed...
tier=$1; shift
out=${TMPDIR:-/tmp}/verif_soak_$$
for seed in "$@"; do
  for p in C01 C05 C06 C07 C13 C18; do
    VERIF_OUT=$out VERIF_SEED=$seed ./check $p --tier $tier > $out.log 2>&1
    code=$?
    echo "seed=$seed $p exit=$code $(grep -v '^KNOWN' $out.log | tail -1)"
    if [ $code -ne 0 ]; then grep -E "^violation|^VIOLATION|HARNESS" $out.log | head -5; mkdir -p soak_failures; cp -r $out/replays soak_failures/ 2>/dev/null; fi
  done
done
rm -rf $out $out.log
