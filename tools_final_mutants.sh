#!/bin/sh
./check --selftest mutants r_C01_Q01A r_C01_Q01B r_C01_Q01C r_C01_R01A r_C01_R01B r_C01_R01C r_C06_Q06A r_C06_Q06B r_C06_Q06C r_C06_R06A r_C06_R06B r_C06_R06C r_C13_Q13A r_C13_Q13B r_C13_Q13C r_C13_R13A r_C13_R13B r_C13_R13C r_C18_Q18A r_C18_Q18B r_C18_Q18C r_C18_R18A r_C18_R18B r_C18_R18C  r03 r05
./check --selftest mutants s_C06a_A s_C06a_B s_C06b_A s_C06b_B s_C06c_A s_C06c_B s_C06d_A s_C06d_B s_C06e_A s_C06e_B s_C06f_A s_C06f_B  m05 m06 m07 m08 i06
./check --selftest mutants s_C13a_A s_C13a_B s_C13b_A s_C13b_B s_C13c_A s_C13c_B s_C13d_A s_C13d_B s_C13e_A s_C13e_B s_C13f_A s_C13f_B s_C13g_A s_C13g_B s_C13h_A s_C13h_B s_C13i_A s_C13i_B  m17 m18 m19 m20 m21 m22
./check --selftest mutants s_C18a_A s_C18a_B s_C18b_A s_C18b_B s_C18c_A s_C18c_B s_C18d_A s_C18d_B s_C18e_A s_C18e_B s_C18f_A s_C18f_B  m23 m24 m25 m26
./check --selftest mutants s_C01a_A s_C01a_B s_C01b_A s_C01b_B s_C01c_A s_C01c_B s_C01d_A s_C01d_B s_C01e_A s_C01e_B s_C01f_A s_C01f_B s_C01g_A s_C01g_B s_C01h_A s_C01h_B s_C01i_A s_C01i_B  m13 i04
./check --selftest mutants s_C01j_A s_C01j_B s_C05f_A s_C05f_B s_C06g_A s_C06g_B s_C07g_A s_C07g_B s_C13j_A s_C13j_B s_C18g_A s_C18g_B
./check --selftest mutants s_C01k_A s_C05g_A s_C05g_B s_C06h_A s_C06h_B s_C07h_A s_C07h_B s_C13k_A s_C13k_B
