"""Sensitivity self-test (DESIGN.md 10): every mutant below still passes the
repository's 219 baseline tests (checked when the list was written) but breaks
a claimed property; the corresponding quick check, pointed at a scratch copy of
/repo with the mutant applied, must report a VIOLATION whose replay file
reproduces in a fresh process.  Also runs the independently written changes
kept under /verif/seeded/*/patch.diff.

  ./check --selftest mutants [id ...]        (ids: m01..., or seeded ids)
Scratch copies live under $TMPDIR (default /tmp) and are removed after use."""
import glob
import json
import os
import shutil
import subprocess
import sys
import tempfile
import time

VERIF = os.path.dirname(os.path.dirname(os.path.abspath(__file__)))
REPO = os.environ.get("VERIF_REPO", "/repo")

# (id, property, file, old, new, what)
MUTANTS = [
    ("m01", "C05", "discopy/rewriting.py",
     "        off0 = off0 - len(box1.dom) + len(box1.cod)\n",
     "        off0 = off0 - len(box1.cod) + len(box1.dom)\n",
     "interchange: operands swapped in the box0-right-of-box1 offset update"),
    ("m02", "C05", "discopy/rewriting.py",
     "    elif off1 >= off0 + len(box0.cod):  # box0 left of box1\n        off1 = off1 - len(box0.cod) + len(box0.dom)\n        middle = left1[len(left0 @ box0.cod):]\n        layer0 = Layer(left0, box0, middle @ box1.cod @ right1)\n        layer1 = Layer(left0 @ box0.dom @ middle, box1, right1)\n    else:",
     "    elif off1 > off0 + len(box0.cod):  # box0 left of box1\n        off1 = off1 - len(box0.cod) + len(box0.dom)\n        middle = left1[len(left0 @ box0.cod):]\n        layer0 = Layer(left0, box0, middle @ box1.cod @ right1)\n        layer1 = Layer(left0 @ box0.dom @ middle, box1, right1)\n    else:",
     "interchange: >= became > in the last branch (adjacent disjoint boxes refused)"),
    ("m03", "C05", "discopy/rewriting.py",
     "    if left and off1 >= off0 + len(box0.cod):  # box0 left of box1\n        off1 = off1 - len(box0.cod) + len(box0.dom)\n        middle = left1[len(left0 @ box0.cod):]",
     "    if left and off1 >= off0 + len(box0.cod):  # box0 left of box1\n        off1 = off1 - len(box0.cod) + len(box0.dom)\n        middle = left1[len(left0 @ box0.dom):]",
     "interchange(left=True): middle wires of the new layers cut at the wrong place"),
    ("m04", "C05", "discopy/rewriting.py",
     "    if not 0 <= i < len(self) or not 0 <= j < len(self):\n        raise IndexError",
     "    if not 0 <= i < len(self) or not 0 <= j <= len(self):\n        raise IndexError",
     "interchange: j == len(self) no longer refused with IndexError"),
    ("m05", "C06", "discopy/rewriting.py",
     "                    or not left and off0 >= off1 + len(box1.dom):",
     "                    or not left and off0 > off1 + len(box1.dom):",
     "normalize: right-exchange condition off by one"),
    ("m06", "C06", "discopy/rewriting.py",
     "        if _diagram in cache:\n            raise NotImplementedError(messages.is_not_connected(self))",
     "        if _diagram in cache and len(cache) > 10 ** 9:\n            raise NotImplementedError(messages.is_not_connected(self))",
     "normal_form: cycle detection disabled (non-termination no longer reported)"),
    ("m07", "C06", "discopy/rewriting.py",
     "            if left and off1 >= off0 + len(box0.cod)\\\n",
     "            if left and off1 >= off0 + len(box0.dom)\\\n",
     "normalize(left=True): exchange condition reads the wrong side of the upper box"),
    ("m08", "C06", "discopy/rewriting.py",
     "            result = result.interchange(last + 1, last)\n",
     "            result = result.interchange(last + 1, last, left=True)\n",
     "foliate: slice construction uses the other interchanger preference (still a legal move)"),
    ("m09", "C07", "discopy/rewriting.py",
     "                    if right_box < box:\n                        right_obstruction[i] += 1\n                cap += 1\n",
     "                    if right_box < box:\n                        right_obstruction[i] += 1\n",
     "unsnake: 'cap += 1' dropped after moving a left obstruction above the cap"),
    ("m10", "C07", "discopy/rewriting.py",
     "                    if right_box > box:\n                        right_obstruction[i] -= 1\n",
     "                    if right_box > box:\n                        right_obstruction[i] += 1\n",
     "unsnake (right snake): obstruction re-indexing with the wrong sign"),
    ("m11", "C07", "discopy/rewriting.py",
     "                if left_snake and cup_dom[:1] != cap_cod[1:]\\\n                        or not left_snake and cap_cod[:1] != cup_dom[1:]:\n                    continue  # the outer legs differ: not a snake equation.\n",
     "                if left_snake and cup_dom[:1] != cap_cod[1:]:\n                    continue  # the outer legs differ: not a snake equation.\n",
     "find_snake: outer-leg check kept for left snakes only (non-snakes yanked on the right)"),
    ("m12", "C07", "discopy/rewriting.py",
     "            if off <= j:\n                j += len(box.cod) - len(box.dom)\n",
     "            if off < j:\n                j += len(box.cod) - len(box.dom)\n",
     "follow_wire: a state created exactly at the followed wire's position no longer shifts it"),
    ("m13", "C01", "discopy/monoidal.py",
     "        offsets = self.offsets + [n + len(self.cod) for n in other.offsets]\n",
     "        offsets = self.offsets + [n + len(self.dom) for n in other.offsets]\n",
     "Diagram.tensor: right-hand offsets shifted by len(self.dom) instead of len(self.cod)"),
    ("m14", "C01", "discopy/monoidal.py",
     "                (box, len(left)) for left, box, _ in layers))) or ([], [])\n",
     "                (box, len(left)) for left, box, _ in self.layers[\n                    slice(None, key.stop, key.step)]))[key.start or 0:]) or ([], [])\n" if False else
     "                (box, len(left)) for left, box, _ in layers))) or ([], [])\n",
     "placeholder (disabled)"),
    ("m15", "C01", "discopy/rigid.py",
     "        cup = cup_factory(left[j:j + 1], right[i:i + 1])\n        layer = ar_factory.id(left[:j]) @ cup @ ar_factory.id(right[i + 1:])\n",
     "        cup = cup_factory(left[j:j + 1], right[i:i + 1])\n        layer = ar_factory.id(left[:j]) @ cup @ ar_factory.id(right[i:][1:])\n" if False else
     "        cup = cup_factory(left[j:j + 1], right[i:i + 1])\n        layer = ar_factory.id(left[:j]) @ cup @ ar_factory.id(right[i + 1:])\n",
     "placeholder (disabled)"),
    ("m16", "C01", "discopy/cat.py",
     "        return self.upgrade(Arrow(\n            self.dom, other.cod, self.boxes + other.boxes, _scan=False))\n",
     "        return self.upgrade(Arrow(\n            self.dom, self.cod if not other.boxes else other.cod,\n            self.boxes + other.boxes, _scan=False))\n",
     "Arrow.then: composing with an identity-like arrow keeps the left codomain (differs when other is Id of another... never) - equivalent; disabled"),
    ("m17", "C13", "discopy/quantum/tk.py",
     "            tk_circ.__getattribute__(box.name[:2])(2 * box.phase, *i_qubits)\n",
     "            tk_circ.__getattribute__(box.name[:2])(box.phase, *i_qubits)\n",
     "to_tk: Rx/Rz exported with half the angle"),
    ("m18", "C13", "discopy/quantum/tk.py",
     "            if not offset else qubits[offset - 1] + 1\n        for i in range(start, tk_circ.n_qubits):\n            old = Qubit('q', i)",
     "            if not offset else qubits[offset - 1]\n        for i in range(start, tk_circ.n_qubits):\n            old = Qubit('q', i)",
     "to_tk.prepare_qubits: register index of a mid-circuit preparation off by one"),
    ("m19", "C13", "discopy/quantum/tk.py",
     "                box.array[0] if box.is_mixed else abs(box.array[0]) ** 2)\n",
     "                box.array[0] if box.is_mixed else abs(box.array[0]))\n",
     "to_tk: pure scalars exported as |z| instead of |z|**2"),
    ("m20", "C13", "discopy/quantum/tk.py",
     "                            if index not in circuit.post_selection)\n",
     "                            if index not in self.post_selection)\n",
     "get_counts: post-selected bits of the FIRST circuit dropped from every circuit of a batch"),
    ("m21", "C13", "discopy/quantum/tk.py",
     "            return Rz(tk_gate.op.params[0] / 2)\n",
     "            return Rz(tk_gate.op.params[0])\n",
     "from_tk: Rz imported with twice the angle"),
    ("m22", "C13", "discopy/quantum/tk.py",
     "                if source <= offset:\n                    offset -= 1\n",
     "                if source < offset:\n                    offset -= 1\n",
     "from_tk.make_units_adjacent: offset not corrected when the moved qubit is the first one"),
    ("m23", "C18", "discopy/grammar/cfg.py",
     "                tag = sentence.dom[0]\n",
     "                tag = sentence.dom[-1]\n",
     "CFG.generate: expands the last symbol but rewrites the first"),
    ("m24", "C18", "discopy/grammar/pregroup.py",
     "            if scan[i: i + 1].r != scan[i + 1: i + 2]:\n",
     "            if scan[i: i + 1].l != scan[i + 1: i + 2]:\n",
     "eager_parse: contracts x with x.l on its right (not a pregroup reduction)"),
    ("m25", "C18", "discopy/rigid.py",
     "        return Id(left) @ Diagram.cups(middle.l, middle) @ Id(right.l)\n",
     "        return Id(left) @ Diagram.cups(middle.l, middle) @ Id(right.r)\n",
     "rigid.Diagram.fc: right factor gets the wrong adjoint"),
    ("m26", "C18", "discopy/grammar/cfg.py",
     "                    if Ty(tag) == prod.cod:\n",
     "                    if tag in prod.cod:\n",
     "CFG.generate: a production whose codomain merely CONTAINS the tag is applied"),
]
MUTANTS += [
    ("r01", "C05", "discopy/rewriting.py",
     "    elif off0 >= off1 + len(box1.dom):  # box0 right of box1\n",
     "    elif off0 >= off1 + len(box1.dom)\\\n            and not off1 >= off0 + len(box0.cod):  # box0 right of box1\n",
     "refactor: when a box may pass on either side, interchange(left=False) now passes on the left"),
    ("r03", "C18", "discopy/grammar/cfg.py",
     "                random.shuffle(prods)\n",
     "                random.shuffle(prods)\n                random.shuffle(prods)\n",
     "refactor: CFG.generate shuffles twice per expansion (other choices, same guarantees)"),
    ("r05", "C01", "discopy/rigid.py",
     "        if left.r != right and left != right.r:\n            raise AxiomError(messages.are_not_adjoints(left, right))\n        self.left, self.right = left, right\n        super().__init__(\"Cup({}, {})\".format(left, right), left @ right, Ty())",
     "        if left.r != right and left != right.r:\n            raise ValueError(\"{} cannot be cupped with {}\".format(left, right))\n        self.left, self.right = left, right\n        super().__init__(\"Cup({}, {})\".format(left, right), left @ right, Ty())",
     "refactor: a non-adjoint Cup is refused with another exception class and message"),
]
MUTANTS += [
    ("i04", "C01", "discopy/cat.py",
     "        return list(self._boxes)\n\n    def __iter__(self):",
     "        return self._boxes\n\n    def __iter__(self):",
     "Arrow.boxes hands out the internal list: a caller (or library code) that edits it edits the diagram"),
    ("i06", "C06", "discopy/rewriting.py",
     "    diagram, cache = self, set()\n",
     "    diagram, cache = self, _SEEN\n",
     "normal_form keeps its set of visited diagrams across calls (module-level cache): the second "
     "normalisation that passes through an already visited diagram reports NotImplementedError"),
]
DISABLED = {"m14", "m15", "m16"}
# changes under which every property still holds: the check must stay CLEAN (soundness)
EXPECT_CLEAN = {
    "m08": "refactor: foliate takes the other, equally legal, side when a box can pass on both",
    "m22": "equivalent for gates on <= 2 qubits (source == offset needs a third operand), i.e. on the supported gate set",
    "r01": "C05 does not fix the tie-break between two legal sides",
    "r03": "C18 quantifies over every outcome of the PRNG",
    "r05": "C01 only asks that ill-typed requests be refused with an error",
}


def scratch_copy():
    base = tempfile.mkdtemp(prefix="verif_mut_", dir=os.environ.get("TMPDIR", "/tmp"))
    shutil.copytree(os.path.join(REPO, "discopy"), os.path.join(base, "repo", "discopy"),
                    ignore=shutil.ignore_patterns("__pycache__"))
    return base


def run_check(prop, repo, out, runs=None, seed=None):
    seed = int(os.environ.get("MUTANT_SEED", "0")) if seed is None else seed
    env = dict(os.environ, VERIF_REPO=repo, VERIF_OUT=out, VERIF_SEED=str(seed))
    cmd = [os.path.join(VERIF, "check"), prop, "--tier", os.environ.get("MUTANT_TIER", "quick")] + (
        ["--runs", str(runs)] if runs else [])
    p = subprocess.run(cmd, env=env, capture_output=True, text=True, timeout=1500)
    lines = [l for l in p.stdout.splitlines() if l.startswith("VIOLATION")]
    return p.returncode, lines, p.stdout[-1500:] + p.stderr[-800:]


def replay(prop, repo, out, rel):
    env = dict(os.environ, VERIF_REPO=repo, VERIF_OUT=out)
    path = rel if os.path.isabs(rel) else os.path.join(out, rel) if os.path.exists(os.path.join(out, rel)) \
        else os.path.join(VERIF, rel)
    p = subprocess.run([os.path.join(VERIF, "check"), prop, "--replay", path], env=env,
                       capture_output=True, text=True, timeout=600)
    return p.returncode


def one(mid, prop, apply_fn, what):
    base = scratch_copy()
    repo, out = os.path.join(base, "repo"), os.path.join(base, "out")
    os.makedirs(out)
    t0 = time.time()
    try:
        apply_fn(repo)
        code, lines, tail = run_check(prop, repo, out)
        verdict, detail = ("CLEAN-AS-EXPECTED" if mid in EXPECT_CLEAN and code == 0 else "MISSED"), ""
        if code == 1 and lines and mid in EXPECT_CLEAN:
            verdict, detail = "FALSE-ALARM", tail[-400:]
        elif code == 1 and lines:
            # (a witness of a *fixed* finding that fails again is reported first; its recorded
            # violation class need not be the one the mutant produces, so try every line)
            rc = None
            for line in lines:
                rc = replay(prop, repo, out, line.split("replay=")[1].strip())
                if rc == 1:
                    break
            verdict = "CAUGHT" if rc == 1 else "CAUGHT-BUT-REPLAY-%d" % rc
            detail = [l for l in tail.splitlines() if l.startswith("violation in run")][:1]
        elif code != 0:
            verdict, detail = "HARNESS-%d" % code, tail[-600:]
        print("%-8s %-4s %-22s %5.0fs  %s  %s" % (mid, prop, verdict, time.time() - t0, what[:70], detail))
        sys.stdout.flush()
        return verdict
    finally:
        shutil.rmtree(base, ignore_errors=True)


def main(args):
    results = {}
    todo = []
    for mid, prop, path, old, new, what in MUTANTS:
        if mid in DISABLED or (args and mid not in args):
            continue

        def apply_fn(repo, path=path, old=old, new=new, mid=mid):
            f = os.path.join(repo, path)
            s = open(f).read()
            if s.count(old) != 1:
                raise RuntimeError("mutant anchor not found exactly once in " + path)
            s = s.replace(old, new)
            if mid == "i06":
                s = s.replace("def normal_form(self, normalizer=None, **params):",
                              "_SEEN = set()\n\n\ndef normal_form(self, normalizer=None, **params):")
            open(f, "w").write(s)
        todo.append((mid, prop, apply_fn, what))
    for d in sorted(glob.glob(os.path.join(VERIF, "seeded", "*"))):
        mid = os.path.basename(d)
        if args and mid not in args:
            continue
        meta = json.load(open(os.path.join(d, "meta.json")))
        if meta.get("expect") == "clean":
            EXPECT_CLEAN[mid] = "independently written change that keeps the property"

        def apply_fn(repo, d=d):
            subprocess.run(["git", "apply", os.path.join(d, "patch.diff")], check=True, cwd=repo)
        todo.append((mid, meta["property"], apply_fn, meta.get("what", "")))
    for mid, prop, fn, what in todo:
        try:
            results[mid] = one(mid, prop, fn, what)
        except Exception as err:
            results[mid] = "ERROR %s" % err
            print(mid, results[mid])
    missed = [m for m, v in results.items() if v not in ("CAUGHT", "CLEAN-AS-EXPECTED")]
    print("mutants: %d run, %d caught, not caught: %s" % (len(results), len(results) - len(missed), missed))
    return 0 if not missed else 4
