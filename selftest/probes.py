"""Reach self-test (DESIGN.md 10/11): runs every quick check into a scratch
directory and requires that each fault kind and each 'this rare condition was
hit' probe listed here actually fired.  A probe stuck at zero means the
workload or the fault mix must change - it fails this self-test, not the check.

  ./check --selftest probes [ids]"""
import json
import os
import shutil
import subprocess
import sys
import tempfile

VERIF = os.path.dirname(os.path.dirname(os.path.abspath(__file__)))

REQUIRED = {
    "C05": ["F1_illegal_IndexError", "F1_illegal_InterchangerError", "F5_fired", "F7_fired", "m2_compared",
            "probe_moved_scalar", "probe_moved_state", "probe_moved_effect", "probe_multi_step_move",
            "probe_equal_boxes_present", "probe_tiebreak_dependent_refusal", "agrees_with_preference_rule",
            "op_dagger"],
    "C06": ["trace_ended", "trace_steps", "step_is_move", "classes_complete", "classes_size_ge2",
            "members_normalised", "canon_walkers", "foliations", "lazy_final_equals_atomic",
            "F2_abandoned_midtrace", "F5_fired", "nf_connected", "nf_disconnected", "nf_not_implemented",
            "trace_repeated_diagram", "kept_steps_rechecked", "nf_repeated_request_same_answer"],
    "C07": ["step_is_yank", "step_is_move", "nf_snake_free", "nf_not_implemented", "F2_abandoned_midtrace",
            "F5_fired", "kept_steps_rechecked", "recipe_transpose_l", "recipe_transpose_r",
            "nf_repeated_request_same_answer", "lazy_final_equals_atomic"],
    "C13": ["F3_compilation_pass_failed", "F4_out_of_order_completion", "F4_rep_Counter", "F4_rep_dict",
            "F4_rep_real_BackendResult_int_shots", "F4_key_order_shuffled", "F4_numpy_int_keys",
            "F4_zero_outcome_omitted", "F4_zero_outcome_present", "F4_integer_shots",
            "F4_cached_result_object_served_again", "F4p_failure_process_circuits", "F4p_failure_get_result",
            "F4p_retry", "probe_circuit_with_input_wires", "probe_normalize_false", "sum_counts_checked",
            "op_import", "op_roundtrip", "op_export", "op_local_counts", "batch_size_2", "batch_size_3",
            "box_Measure", "box_Bra", "box_Discard", "box_CRz", "box_SWAP", "box_scalar"],
    "C18": ["F6_shuffle_decisions", "F2_abandoned_midstream", "sentences", "sentence_complete",
            "generators_exhausted", "parses", "parse_refused", "brute_force_sentences", "translations",
            "trees", "probe_parse_with_ge3_cups", "probe_side_with_ge3_wires", "probe_sentence_depth_ge3",
            "kept_sentences_rechecked", "translate_FX", "translate_BX", "translate_Curry", "translate_CurryL"],
    "C01": ["F1_refused", "F2_abandoned", "F3_fired", "F5_fired", "F7_fired", "yielded_rewrite_steps",
            "sums_built", "F6_random_tiling_decisions", "probe_partial_reverse_slice", "values_scanned",
            "monitor_fastpath_rescanned", "op_functor", "op_construct", "op_interchange"],
}


def main(args):
    props = args or sorted(REQUIRED)
    out = tempfile.mkdtemp(prefix="verif_probes_", dir=os.environ.get("TMPDIR", "/tmp"))
    bad = []
    try:
        for prop in props:
            env = dict(os.environ, VERIF_OUT=out)
            p = subprocess.run([os.path.join(VERIF, "check"), prop, "--tier", "quick"], env=env,
                               capture_output=True, text=True, timeout=1800)
            if p.returncode != 0:
                bad.append((prop, "check exited %d" % p.returncode))
                continue
            cov = json.load(open(os.path.join(out, "evidence", prop + ".json")))["coverage"]
            counters = cov["counters"]
            zero = [k for k in REQUIRED[prop] if not counters.get(k)]
            print("%s: %d probes required, stuck at zero: %s" % (prop, len(REQUIRED[prop]), zero or "none"))
            sys.stdout.flush()
            if zero:
                bad.append((prop, zero))
    finally:
        shutil.rmtree(out, ignore_errors=True)
    print("probes:", "all fired" if not bad else "NOT REACHED: %s" % bad)
    return 0 if not bad else 5
