#!/bin/sh
# Offline setup: nothing is downloaded or compiled.  Verifies that the image's
# interpreter can import what the checks need and that discopy comes from /repo.
set -e
cd "$(dirname "$0")"
PY=/venv/bin/python
$PY - <<'PYEOF'
import sys
import numpy, sympy, networkx, pytket
sys.path.insert(0, "/verif")
from sim import world
d = world.load()
print("setup ok: python %s, numpy %s, pytket %s, discopy %s from %s" % (
    sys.version.split()[0], numpy.__version__, pytket.__version__, d.__version__, d.__file__))
PYEOF
mkdir -p evidence replays
