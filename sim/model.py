"""Reference models M1 (free monoidal / rigid diagrams) and M2 (exact integer
semantics).  Independent of discopy: nothing here imports it; `model_of`
only reads public attributes of values under test."""
import numpy as np


class ModelError(Exception):
    """The *model* value is ill-typed (used for values extracted from the library)."""


# --------------------------------------------------------------------------
# M1 data: atoms are (name, z); a box is a tuple
#   (ident, name, dom, cod, kind, dagger)   kind in box|cup|cap|swap
# a diagram is (dom, boxes, offsets) with tuples everywhere.
# --------------------------------------------------------------------------

def mbox(name, dom, cod, kind="box", dagger=False, ident=None):
    dom, cod = tuple(map(tuple, dom)), tuple(map(tuple, cod))
    if ident is None:
        ident = "%s:%s:%r:%r:%d" % (kind, name, dom, cod, int(dagger))
    return (ident, name, dom, cod, kind, bool(dagger))


def mdiagram(dom, boxes, offsets):
    return (tuple(map(tuple, dom)), tuple(boxes), tuple(offsets))


def atom_of(ob):
    return (str(ob.name), int(getattr(ob, "z", 0) or 0))


def atoms_of(ty):
    return tuple(atom_of(ob) for ob in ty.objects)


def box_kind(box):
    name = type(box).__name__
    if name == "Cup":
        return "cup"
    if name == "Cap":
        return "cap"
    if name in ("Swap", "SWAP") or hasattr(box, "left") and hasattr(box, "right") \
            and name.lower().startswith("swap"):
        return "swap"
    return "box"


def model_of(d):
    """Extract the M1 model of a real diagram from its public attributes."""
    boxes = []
    for b in d.boxes:
        data = getattr(b, "data", None)
        name = str(getattr(b, 'name', 'diagram'))
        if data is not None and box_kind(b) == "box":
            name += "#" + " ".join(repr(data).split())[:80]      # equal name, other data: another generator
        bd, bc = atoms_of(b.dom), atoms_of(b.cod)
        # identity of a box: its repr AND its type (some classes print the name only)
        boxes.append(("%s|%r|%r" % (repr(b), bd, bc), name, bd, bc,
                      box_kind(b), bool(getattr(b, "is_dagger", False))))
    return (atoms_of(d.dom), tuple(boxes), tuple(d.offsets))


def scan(m):
    """The defining type scan.  Returns (layers, cod) with layers a list of
    (left, box, right).  Raises ModelError when a box does not find its domain."""
    dom, boxes, offsets = m
    if len(boxes) != len(offsets):
        raise ModelError("boxes and offsets differ in length")
    cur, layers = tuple(dom), []
    for k, (box, off) in enumerate(zip(boxes, offsets)):
        bdom, bcod = box[2], box[3]
        if not isinstance(off, int) or isinstance(off, bool) or off < 0 \
                or off + len(bdom) > len(cur):
            raise ModelError("box %d does not fit at offset %r" % (k, off))
        if cur[off:off + len(bdom)] != bdom:
            raise ModelError("box %d does not find its domain at its offset" % k)
        layers.append((cur[:off], box, cur[off + len(bdom):]))
        cur = cur[:off] + bcod + cur[off + len(bdom):]
    return layers, cur


def cod_of(m):
    return scan(m)[1]


def width(m):
    layers, cod = scan(m)
    w = max(len(m[0]), len(cod))
    for left, box, right in layers:
        w = max(w, len(left) + len(box[3]) + len(right))
    return w


def components(m):
    """Number of connected components of the box graph (boxes joined by a wire)."""
    dom, boxes, offsets = m
    n = len(boxes)
    parent = list(range(n))

    def find(a):
        while parent[a] != a:
            parent[a] = parent[parent[a]]
            a = parent[a]
        return a
    prod = [None] * len(dom)
    for i, (box, off) in enumerate(zip(boxes, offsets)):
        for p in prod[off:off + len(box[2])]:
            if p is not None:
                parent[find(p)] = find(i)
        prod = prod[:off] + [i] * len(box[3]) + prod[off + len(box[2]):]
    return len({find(i) for i in range(n)})


def is_connected(m):
    return components(m) <= 1


def adjacent(m, k, left):
    """Exchange boxes k, k+1 with the library's preference rule.  None if the
    boxes are horizontally entangled."""
    dom, boxes, offsets = m
    b0, b1 = boxes[k], boxes[k + 1]
    o0, o1 = offsets[k], offsets[k + 1]
    box0_left = o1 >= o0 + len(b0[3])     # lower box entirely right of upper's outputs
    box0_right = o0 >= o1 + len(b1[2])    # upper box entirely right of lower's inputs
    if left and box0_left:
        n1, n0 = o1 - len(b0[3]) + len(b0[2]), o0
    elif box0_right:
        n1, n0 = o1, o0 - len(b1[2]) + len(b1[3])
    elif box0_left:
        n1, n0 = o1 - len(b0[3]) + len(b0[2]), o0
    else:
        return None
    return (dom, boxes[:k] + (b1, b0) + boxes[k + 2:],
            offsets[:k] + (n1, n0) + offsets[k + 2:])


def adjacent_options(m, k):
    """All results of exchanging boxes k, k+1 (0, 1 or 2 distinct results:
    when both boxes are mutually free - e.g. a scalar - either side is legal)."""
    out = []
    for left in (False, True):
        r = adjacent(m, k, left)
        if r is not None and r not in out:
            out.append(r)
    return out


def interchange(m, i, j, left):
    """Model of Diagram.interchange(i, j, left): 'IndexError',
    'InterchangerError' or the new model."""
    n = len(m[1])
    if isinstance(i, bool) or isinstance(j, bool) or not (0 <= i < n and 0 <= j < n):
        return "IndexError"
    if i == j:
        return m
    step, k = (1 if j > i else -1), i
    while k != j:
        r = adjacent(m, min(k, k + step), left)
        if r is None:
            return "InterchangerError"
        m, k = r, k + step
    return m


def move_analysis(m, i, j):
    """Moving box i to position j by adjacent exchanges, free choice of side
    whenever both are legal (upper box without outputs directly above a lower
    box without inputs at the same offset).  Returns 'IndexError' or
    (options, always): options = set of reachable results (empty: every route
    is blocked by a horizontally entangled box), always = no route is blocked."""
    n = len(m[1])
    if isinstance(i, bool) or isinstance(j, bool) or not (0 <= i < n and 0 <= j < n):
        return "IndexError"
    if i == j:
        return {m}, True
    step, k, frontier, always = (1 if j > i else -1), i, {m}, True
    while k != j and frontier:
        nxt = set()
        for cur in frontier:
            opts = adjacent_options(cur, min(k, k + step))
            if not opts:
                always = False
            nxt.update(opts)
        frontier, k = nxt, k + step
    return frontier, always and bool(frontier)


def general_moves(m):
    """Every diagram reachable by moving ONE box to another position past boxes
    it is horizontally disjoint from, choosing freely at each adjacent exchange
    which side to pass on (the statement's 'single interchange')."""
    n, out = len(m[1]), set()
    for i in range(n):
        for step in (1, -1):
            frontier, k = {m}, i
            while 0 <= k + step < n and frontier:
                nxt = set()
                for cur in frontier:
                    nxt.update(adjacent_options(cur, min(k, k + step)))
                frontier, k = nxt, k + step
                out.update(frontier)
    return out      # may contain m itself: exchanging two equal boxes gives an equal diagram


def is_single_move(prev, nxt):
    if prev[0] != nxt[0] or len(prev[1]) != len(nxt[1]):
        return False
    return nxt in general_moves(prev)


def eq_class(m, cap=3000):
    """BFS of the interchanger-equivalence class.  Returns (set, complete)."""
    seen, todo = {m}, [m]
    while todo:
        cur = todo.pop()
        for k in range(len(cur[1]) - 1):
            for nxt in adjacent_options(cur, k):
                if nxt not in seen:
                    if len(seen) >= cap:
                        return seen, False
                    seen.add(nxt)
                    todo.append(nxt)
    return seen, True


def same_boxes(m0, m1):
    return sorted(b[0] for b in m0[1]) == sorted(b[0] for b in m1[1])


# ---------------- snakes (rigid) -----------------------------------------

def _follow(m, i, j):
    """Follow the output wire at position j of box i downwards.  Returns
    (index of the consuming box or len, position at that point)."""
    dom, boxes, offsets = m
    for k in range(i + 1, len(boxes)):
        off, nin, nout = offsets[k], len(boxes[k][2]), len(boxes[k][3])
        if off <= j < off + nin:
            return k, j
        if off + nin <= j:
            j += nout - nin
    return len(boxes), j


def adjoint_ok(a, b):
    """Two atoms that a cup/cap may join (either orientation)."""
    return a[0] == b[0] and abs(a[1] - b[1]) == 1


def snakes(m):
    """All (cap, cup, side) where a leg of the cap runs straight into the
    opposite leg of a cup, with flag `valid` = outer legs have equal type.
    Returns list of (cap_index, cup_index, left_snake, valid)."""
    dom, boxes, offsets = m
    layers, _ = scan(m)
    out = []
    for c, box in enumerate(boxes):
        if box[4] != "cap":
            continue
        for left_snake, leg in ((True, 0), (False, 1)):
            k, j = _follow(m, c, offsets[c] + leg)
            if k == len(boxes) or boxes[k][4] != "cup":
                continue
            # left snake: Id @ Cap >> Cup @ Id : cap's LEFT leg enters cup's RIGHT leg
            if left_snake and offsets[k] + 1 != j:
                continue
            if not left_snake and offsets[k] != j:
                continue
            cap_cod, cup_dom = box[3], boxes[k][2]
            if left_snake:
                valid = cup_dom[0] == cap_cod[1]
            else:
                valid = cap_cod[0] == cup_dom[1]
            out.append((c, k, left_snake, valid))
    return out


def delete_pair(m, cap, cup):
    dom, boxes, offsets = m
    return (dom, boxes[:cap] + boxes[cup + 1:], offsets[:cap] + offsets[cup + 1:])


def is_snake_deletion(prev, nxt):
    """nxt == prev minus a cap directly followed by the cup it forms a valid snake with."""
    if prev[0] != nxt[0] or len(prev[1]) != len(nxt[1]) + 2:
        return False
    for cap, cup, _left, valid in snakes(prev):
        if valid and cup == cap + 1 and delete_pair(prev, cap, cup) == nxt:
            return True
    return False


# --------------------------------------------------------------------------
# M2: exact integer semantics
# --------------------------------------------------------------------------

class Overflow(Exception):
    pass


class M2:
    """A random monoidal (rigid) functor into integer matrices.  Entries are
    integer-valued float64 guarded below 2**52, so equality is exact."""

    def __init__(self, rng, dims=(1, 2, 3), maxdim=256):
        self.rng, self.dims, self.maxdim = rng, dims, maxdim
        self.dimof, self.tens = {}, {}

    def dim(self, atom):
        name = atom[0]
        if name not in self.dimof:
            self.dimof[name] = self.rng.choice(self.dims)
        return self.dimof[name]

    def tdim(self, atoms):
        n = 1
        for a in atoms:
            n *= self.dim(a)
        return n

    def box(self, box):
        ident, name, dom, cod, kind, dagger = box
        if kind == "cup":
            d = self.dim(dom[0])
            return np.eye(d, dtype=np.float64).reshape(d * d, 1)
        if kind == "cap":
            d = self.dim(cod[0])
            return np.eye(d, dtype=np.float64).reshape(1, d * d)
        if kind == "swap":
            a, b = self.dim(dom[0]), self.dim(dom[1])
            mat = np.zeros((a * b, b * a), dtype=np.float64)
            for i in range(a):
                for j in range(b):
                    mat[i * b + j, j * a + i] = 1
            return mat
        key = (name, cod, dom) if dagger else (name, dom, cod)
        if key not in self.tens:
            r, c = self.tdim(key[1]), self.tdim(key[2])
            self.tens[key] = np.array(
                [self.rng.randint(-2, 2) for _ in range(r * c)],
                dtype=np.float64).reshape(r, c)
        t = self.tens[key]
        return t.T if dagger else t

    def eval(self, m):
        dom, boxes, offsets = m
        layers, _ = scan(m)
        mat = np.eye(self.tdim(dom), dtype=np.float64)
        for left, box, right in layers:
            l, r = self.tdim(left), self.tdim(right)
            t = self.box(box)
            if l * t.shape[0] * r > self.maxdim or l * t.shape[1] * r > self.maxdim:
                raise Overflow("dimension")
            layer = np.kron(np.kron(np.eye(l), t), np.eye(r))
            if mat.size and layer.size:
                bound = np.abs(mat).dot(np.abs(layer)).max()
                if bound >= 2 ** 52:
                    raise Overflow("magnitude")
            mat = mat.dot(layer)
        return mat


def m2_pair(rng, m, n=2):
    """n interpretations suited to the width of m."""
    import random as _random
    w = width(m)
    dims = (1, 2, 3) if w <= 3 else ((1, 2, 2) if w <= 6 else (1, 1, 2))
    return [M2(_random.Random(rng.getrandbits(48)), dims, maxdim=128) for _ in range(n)]


class Denotation:
    """The value of one source diagram under n fixed interpretations, cached,
    to compare many other diagrams with (exact equality)."""
    def __init__(self, rng, src, n=2):
        self.interps, self.values = m2_pair(rng, src, n), []
        for f in self.interps:
            try:
                self.values.append(f.eval(src))
            except Overflow:
                self.values.append(None)

    def equal(self, m):
        """True / False / None (None: could not evaluate within the guards)."""
        verdict = None
        for f, ref in zip(self.interps, self.values):
            if ref is None:
                continue
            try:
                val = f.eval(m)
            except Overflow:
                continue
            if val.shape != ref.shape or not (val == ref).all():
                return False
            verdict = True
        return verdict


def m2_equal(interps, m0, m1):
    """True / False / None (None: could not evaluate within the guards)."""
    verdict = None
    for f in interps:
        try:
            a, b = f.eval(m0), f.eval(m1)
        except Overflow:
            continue
        if a.shape != b.shape or not (a == b).all():
            return False
        verdict = True
    return verdict
