"""Command-line driver shared by all checks."""
import argparse
import importlib
import json
import os
import sys
import time

from sim import core

# property -> engine, budgets (runs, wall cap seconds), evidence texts
PROPS = {
    "C05": {
        "engine": "rewrite",
        "quick": (6000, 50), "thorough": (150000, 600),
        "rule": ("Each run: 1-3 walkers on random diagrams (0-9 boxes, <=6 wires; monoidal, rigid, tensor, "
                 "circuit or zx clothing; degenerate shapes, repeated box names), <=60 scheduled requests "
                 "interchange(i, j, left) incl. illegal and out-of-range ones, dagger conjugation, "
                 "interruption, scribbling. A case is DISTINCT by (diagram model, i, j, left) and "
                 "NON-TRIVIAL when i != j and the library returned a value (a real move was checked "
                 "against M1 and the exact integer semantics M2)."),
        "assumptions": [
            "M1 exchange rule: boxes k,k+1 may be exchanged iff the lower lies entirely right of the upper's "
            "outputs or the upper entirely right of the lower's inputs ('wired' read as horizontally entangled)",
            "M2: equality under 2 random integer-matrix functors per move stands for 'every monoidal functor' "
            "(accidental collisions give false negatives only)",
            "sizes <= 9 boxes / <= 6 wires; a clean batch is evidence, not proof"],
    },
    "C06": {
        "engine": "rewrite",
        "quick": (1000, 55), "thorough": (14000, 800),
        "rule": ("Each run: one random diagram (2-8 boxes), walkers moved by scheduled legal interchanges, "
                 "lazy normalize()/foliate() tasks stepped, interleaved, abandoned; atomic normal_form(); "
                 "M1 BFS of the interchanger class with normal_form on (a sample of) every member, both "
                 "left flags. DISTINCT cases: (input model, left) of normal_form calls, traces run to the "
                 "end, and classes by canonical member; NON-TRIVIAL = classes with >= 2 members plus "
                 "normal_form/trace cases (each validated step by step against M1 and M2)."),
        "assumptions": [
            "connectivity as in arXiv:1804.07832: boxes joined by a wire (M1 box graph)",
            "class enumeration capped (200/800/3000 members); membership asserted only when the class closed",
            "termination is decided by deterministic line-event budgets, never by wall-clock"],
    },
    "C07": {
        "engine": "rewrite",
        "quick": (800, 150), "thorough": (6000, 800),
        "rule": ("Each run: one random rigid diagram (boxes, caps/cups of both orientations, winding numbers "
                 "in [-3,3], snake templates with obstructions on either side, invalid look-alike snakes), "
                 "lazy normalize() tasks stepped/interleaved/abandoned, legal interchanges on forks, "
                 "atomic normal_form(). DISTINCT by (input model, left); NON-TRIVIAL = traces/normal forms "
                 "whose input contains at least one cap-cup pair joined by a wire."),
        "assumptions": [
            "valid snake = cap leg running straight into the opposite leg of a cup AND equal outer legs (M1 follower)",
            "M2 rigid semantics: every adjoint of an atom gets the same dimension, cups/caps are identity tensors",
            "sizes <= 10 generation steps / <= 6 wires"],
    },
    "C13": {
        "engine": "backend",
        "quick": (450, 45), "thorough": (12000, 800),
        "rule": ("Each run: 1-4 random circuits (<=10 boxes, <=5 wires) over a per-run subset of the exportable "
                 "box kinds (70% of runs quantum core only, 30% also the classical-register fringe); scheduled "
                 "client operations: to_tk vs M3, round trip, import of peer-generated tket circuits, "
                 "eval/get_counts through SimBackend singly, in batches of up to 3 and as sums, with "
                 "out-of-order completion, varying result representation, compilation passes and injected "
                 "backend failures followed by a retry. DISTINCT by (operation, circuit repr, batch size, "
                 "position); all are NON-TRIVIAL (each compares an M3/backend result with local evaluation)."),
        "assumptions": [
            "pytket Op.get_unitary() gives the intended gate matrices (validated against get_statevector at start-up)",
            "probabilities compared with atol 1e-9 on <= 5 wires / <= 10 boxes",
            "the backend is exact (returns p * n_shots), so there is no statistical oracle"],
        "real_stub": {
            "real": ["/repo/discopy working tree (hooks on)", "pytket.Circuit incl. rename_units/add_bit/get_commands",
                     "pytket Op.get_unitary()", "pytket passes RemoveRedundancies/CommuteThroughMultis",
                     "pytket BackendResult (integer-shot representation)", "numpy"],
            "stub": ["SimBackend job queue, clock, representation, failures (sim/tksim.py)",
                     "M3 branch simulator and classical post-processing evaluator (sim/tksim.py)"]},
    },
    "C01": {
        "engine": "session",
        "quick": (2500, 30), "thorough": (60000, 700),
        "slices": [("rewrite", "C06", 120, 2500), ("rewrite", "C07", 60, 1200), ("rewrite", "C05", 400, 8000),
                   ("backend", "C13", 60, 1500), ("grammar", "C18", 300, 8000)],
        "rule": ("Each run: one diagram family (cat, monoidal, rigid, tensor, circuit, zx, biclosed, cartesian), "
                 "a pool of values built from random specs, boxes, identities and family-specific generators, "
                 "30-100 scheduled client requests: >>, <<, @, then(*others), dagger, slices incl. backwards and "
                 "stepped, indexing, iteration, interchange, normal_form, lazy normalize/foliate tasks, foliation, "
                 "flatten, depth/width, swap, permutation, permute, cups, caps, Cup, Cap, fa/ba/fc/bc/fx/bx, curry, "
                 "transpose, bubble, downgrade, functor images (dict or callable maps, images of length 0-2, "
                 "failing callbacks), the raw scanning constructor; a per-run share of requests is deliberately "
                 "ill-typed. DISTINCT by (family, operation, repr of the returned value); all NON-TRIVIAL (each "
                 "is a returned diagram that was scanned)."),
        "assumptions": [
            "well-typed = the caller-side scan of sim/build.py (types compared as lists of objects) and the "
            "in-library monitor of sim/world.py agree with dom, cod, boxes, offsets, layers",
            "a request is ill-typed when the M1-side type comparison says so (non-composable >>, wrong offsets or "
            "codomain, non-adjoint cups, non-permutations, connected interchange, out-of-range index, slice step "
            "other than 1 or -1); any exception is accepted as a refusal",
            "legal requests may raise (the statement only constrains values that are handed back)"],
        "real_stub": {
            "real": ["/repo/discopy working tree, all eight diagram classes, hooks on"],
            "stub": ["invariant monitor installed into discopy._verif.on_construct", "caller-side scan, M1 type scan"]},
    },
    "C18": {
        "engine": "grammar",
        "quick": (2500, 45), "thorough": (150000, 700),
        "rule": ("Each run mixes (swarm weights per run): CFG.generate on random grammars (1-4 symbols, 1-7 "
                 "productions, empty right-hand sides, unit and recursive productions, unreachable symbols) with "
                 "every random.shuffle outcome decided by the simulator (policies: random, constant, alternating, "
                 "reversing), 1-3 generators interleaved on the shared PRNG, abandoned or exhausted; eager_parse on "
                 "word sequences built backwards from a derivation (20% perturbed); brute_force under a line-event "
                 "budget; biclosed2rigid on FA/BA/FC/BC/FX/BX/Curry/boxes over nested slash types; tree2diagram "
                 "on random CCG trees. DISTINCT by (grammar, sentence) / parse result / (rule, types) / tree; "
                 "all NON-TRIVIAL (each is an output checked by M4)."),
        "assumptions": [
            "M4: rigid image of a slash type is recomputed from the slash structure alone ((l<<r) -> l @ r.l, (l>>r) -> l.r @ r)",
            "a generated sentence is accepted when it is a well-typed diagram into the start symbol built from the given productions only (leftmost-ness and completeness are recorded, not asserted)",
            "brute_force is an infinite search: a step that exceeds its line-event budget is abandoned without verdict"],
        "real_stub": {
            "real": ["/repo/discopy working tree: grammar.cfg, grammar.pregroup, grammar.ccg, biclosed, rigid"],
            "stub": ["SimRandom replacing discopy.grammar.cfg.random (every shuffle is a recorded decision)",
                     "M4 derivation checker and slash-type wire count (sim/engines/grammar.py)"]},
    },
}

REAL_STUB = {
    "real": ["/repo/discopy working tree (hooks on)", "numpy", "sympy where used", "pytket objects (C13)"],
    "stub": ["reference models M1/M2 (sim/model.py)", "scheduler, fault injector, monitor (sim/)"],
}


def engine_of(prop):
    return importlib.import_module("sim.engines." + PROPS[prop]["engine"])


def known_for(prop):
    return [e for e in core.load_known() if e["property"] == prop]


def replay_file(path, quiet=False):
    with open(path) as f:
        doc = json.load(f)
    prop = doc.get("world_prop", doc["property"])
    engine = importlib.import_module("sim.engines." + doc["engine"])
    from sim import world
    world.load()                      # the parent stays pristine; the ops run in a fresh child
    v, k = core.execute_isolated(engine, prop, doc["config"], doc["ops"])
    return doc, v, k


def cmd_replay(prop, path):
    doc, v, k = replay_file(path)
    want = doc["violation"]["kind"]
    if v is not None and v.kind == want:
        print("reproduced at op %d: %s: %s" % (k, v.kind, v.message[:300]))
        print("VIOLATION property=%s replay=%s" % (doc["property"], path))
        return 1
    print("REPLAY-DIVERGED expected %s at op %s, got %s" % (
        want, doc["violation"].get("step"), v))
    return 3


def check_known(prop):
    """Replay witnesses.  known: must still fail the listed way -> KNOWN-FINDING line.
    fixed: regression replay must pass."""
    lines, bad = [], []
    for e in known_for(prop):
        wit = os.path.join(core.VERIF_DIR, e["witness"])
        doc, v, k = replay_file(wit)
        if e["status"] == "known":
            if v is not None and v.kind == doc["violation"]["kind"]:
                lines.append("KNOWN-FINDING: property=%s %s" % (prop, e["what"]))
            else:
                print("note: known finding %s no longer reproduces from its witness" % e["id"])
        else:
            if v is not None:
                bad.append((e, wit, v))
    return lines, bad


def finding_matches(engine, entry, res):
    if entry["status"] != "known":
        return False
    fn = getattr(engine, "finding_matches", None)
    if fn is None:
        return False
    ops = res.get("min_ops") or res["ops"]
    vio = res.get("min_violation") or res["violation"]
    return fn(entry["signature"], ops, vio)


def cmd_check(prop, tier, seed, runs=None, wall=None, workers=None, first_index=0):
    spec = PROPS[prop]
    engine = engine_of(prop)
    n_runs, wall_cap = spec[tier]
    n_runs, wall_cap = runs or n_runs, wall or wall_cap
    t0 = time.time()
    from sim import world
    world.load()
    tree = world.tree_id()
    print("check %s tier=%s VERIF_SEED=%d runs<=%d wall<=%ds tree=%s+%s" % (
        prop, tier, seed, n_runs, wall_cap, tree["rev"][:10], tree["diff_sha"]))
    sys.stdout.flush()
    exit_code = 0
    known_lines, regress = check_known(prop)
    for line in known_lines:
        print(line)
    n_violations = 0
    for e, wit, v in regress:
        n_violations += 1
        print("regression of fixed finding %s: %s: %s" % (e["id"], v.kind, v.message[:200]))
        print("VIOLATION property=%s replay=%s" % (prop, wit))
        exit_code = 1
    agg = core.run_batch(spec["engine"], prop, seed, n_runs, tier, wall_cap, workers=workers,
                         first_index=first_index)
    suppressed = {}
    batches = [(spec["engine"], prop, agg)]
    slice_cov = {}
    for eng_name, wprop, nq, nt in spec.get("slices", []):
        # runs of the other engines with the monitor and caller-side scans as the only C01 oracles
        n_slice = nq if tier == "quick" else nt
        if runs:
            n_slice = max(1, n_slice * runs // spec[tier][0])
        sl = core.run_batch(eng_name, wprop, seed, n_slice, tier, max(10, wall_cap // 3), workers=workers,
                            cfg_override={"monitor_is_violation": True}, first_index=first_index,
                            do_min=prop + ".")
        batches.append((eng_name, wprop, sl))
        slice_cov["%s/%s" % (eng_name, wprop)] = {
            "runs": sl["runs"], "steps": sl["steps"],
            "foreign_violations_ignored": len([r for r in sl["violations"]
                                               if not r["violation"]["kind"].startswith(prop + ".")]),
            "monitor_fired": sl["counters"].get("monitor_fired", 0)}
        agg["harness"] += sl["harness"]
    for eng_name, wprop, batch in batches:
        eng = importlib.import_module("sim.engines." + eng_name)
        for res in batch["violations"]:
            vio = res.get("min_violation") or res["violation"]
            if not res["violation"]["kind"].startswith(prop + ".") and wprop != prop:
                continue            # reported by that property's own check
            matched = None
            for e in known_for(prop):
                if finding_matches(eng, e, res):
                    matched = e
                    break
            if matched:
                suppressed[matched["id"]] = suppressed.get(matched["id"], 0) + 1
                continue
            n_violations += 1
            if n_violations > 5:
                continue          # counted; only the first five get replay files
            raw = core.write_replay(prop, eng_name, seed, res, res["ops"], res["violation"],
                                    False, tree, suffix=".raw", world_prop=wprop)
            path = raw
            if res.get("min_ops"):
                path = core.write_replay(prop, eng_name, seed, res, res["min_ops"],
                                         res["min_violation"], True, tree, world_prop=wprop)
            print("violation in run %d of %s/%s (%d ops, minimised to %s): %s: %s" % (
                res["run_index"], eng_name, wprop, len(res["ops"]),
                len(res["min_ops"]) if res.get("min_ops") else "n/a", vio["kind"], vio["message"]))
            print("VIOLATION property=%s replay=%s" % (prop, os.path.relpath(path, core.VERIF_DIR)))
            exit_code = 1
    for h in agg["harness"]:
        print("%s (run %s)\n%s" % (h["harness"], h.get("run_index"), h.get("trace", "")))
        if exit_code == 0:
            exit_code = 2
    if agg["runs"] == 0 and exit_code == 0:
        print("HARNESS-ERROR no run completed")
        exit_code = 2
    wall = time.time() - t0
    counters = dict(agg["counters"])
    faults = {k: v for k, v in counters.items() if k[:2] in ("F1", "F2", "F3", "F4", "F5", "F6", "F7")}
    probes = {k: v for k, v in counters.items() if k.startswith("probe_")}
    cov = {
        "evaluations": agg["runs"],
        "distinct_nontrivial": len(agg["distinct"]),
        "rule": spec["rule"],
        "samples": agg["samples"] or [{"note": "no clean run to sample"}],
        "steps": agg["steps"],
        "distinct_states_by_model_fingerprint": len(agg["states"]),
        "distinct_schedules": len(agg["schedules"]),
        "distinct_schedules_measure": "distinct sequences of (operation, task, slots, interrupted?, "
                                      "backend failure point) over a whole run, i.e. distinct interleavings "
                                      "of client operations, lazy-task steps and injected faults",
        "runs_requested": n_runs, "runs_submitted": agg["submitted"],
        "wall_capped": agg["wall_capped"],
        "runs_per_hour": int(agg["runs"] / max(agg["wall_s"], 1e-9) * 3600),
        "steps_per_hour": int(agg["steps"] / max(agg["wall_s"], 1e-9) * 3600),
        "simulated_time": "none: this engine has no clock; progress is counted in scheduler steps "
                          "(see 'steps'); C13 alone reports simulated backend time",
        "faults_fired": faults, "probes": probes, "counters": counters,
        "batch_digest": core.batch_digest(agg),
        "known_findings_matched": suppressed,
        "known_findings_listed": [e["id"] for e in known_for(prop)],
        "real_vs_stub": spec.get("real_stub", REAL_STUB),
        "tree": tree, "workers": workers or min(16, os.cpu_count() or 1),
        "harness_errors": len(agg["harness"]),
        "slowest_runs_wall_s_and_index": agg.get("slowest", []),
    }
    if slice_cov:
        cov["slices_of_other_engines_policed_by_the_monitor"] = slice_cov
    extra = getattr(engine, "evidence_extra", None)
    if extra:
        cov.update(extra(prop, counters))
    if cov["distinct_nontrivial"] < 2 or cov["evaluations"] < 1:
        print("HARNESS-ERROR too little explored for an evidence file")
        exit_code = exit_code or 2
    else:
        core.write_evidence(prop, tier, seed, cov, spec["assumptions"], wall, n_violations)
    print("%s: %d runs, %d steps, %d distinct non-trivial cases, %d violations, %d known matched, "
          "%.1fs, digest %s" % (prop, agg["runs"], agg["steps"], len(agg["distinct"]),
                                n_violations, sum(suppressed.values()), wall, cov["batch_digest"]))
    return exit_code


def cmd_selftest_determinism(props, seeds=40):
    """Same seeds twice in-process at two worker counts plus once in a fresh
    interpreter under another PYTHONHASHSEED; all run digests must agree."""
    import subprocess
    ok = True
    from sim import world
    world.load()
    for prop in props:
        spec = PROPS[prop]
        a = core.run_batch(spec["engine"], prop, 12345, seeds, "quick", 600, workers=4)
        b = core.run_batch(spec["engine"], prop, 12345, seeds, "quick", 600, workers=16)
        env = dict(os.environ, PYTHONHASHSEED="7", VERIF_NO_REEXEC="1")
        out = subprocess.run(
            [sys.executable, os.path.join(core.VERIF_DIR, "check"), "--digests", prop, str(seeds)],
            env=env, capture_output=True, text=True, timeout=1800)
        try:
            c = json.loads(out.stdout.strip().splitlines()[-1])
        except Exception:
            print("selftest %s: fresh interpreter failed:\n%s\n%s" % (prop, out.stdout[-2000:], out.stderr[-2000:]))
            ok = False
            continue
        da, db = a["digests"], b["digests"]
        dc = {int(k): v for k, v in c.items()}
        diff = [k for k in da if da[k] != db.get(k) or da[k] != dc.get(k)]
        print("selftest determinism %s: %d seeds x 3 executions (4 workers, 16 workers, fresh interpreter "
              "PYTHONHASHSEED=7): %s" % (prop, len(da), "all digests equal" if not diff else
                                         "DIVERGED on runs %s" % diff[:10]))
        if diff or len(da) != seeds or a["harness"] or b["harness"]:
            ok = False
    return 0 if ok else 2


def cmd_digests(prop, seeds):
    from sim import world
    world.load()
    a = core.run_batch(PROPS[prop]["engine"], prop, 12345, seeds, "quick", 600, workers=8)
    print(json.dumps({str(k): v for k, v in a["digests"].items()}))
    return 0


def main(argv):
    ap = argparse.ArgumentParser(prog="check")
    ap.add_argument("prop", nargs="?")
    ap.add_argument("rest", nargs="*")
    ap.add_argument("--tier", default=os.environ.get("VERIF_TIER", "quick"))
    ap.add_argument("--replay")
    ap.add_argument("--selftest")
    ap.add_argument("--digests", action="store_true")
    ap.add_argument("--runs", type=int)
    ap.add_argument("--wall", type=int)
    ap.add_argument("--workers", type=int)
    ap.add_argument("--first", type=int, default=0)
    ap.add_argument("--seed", type=int, default=int(os.environ.get("VERIF_SEED", "0")))
    args = ap.parse_args(argv)
    if args.digests:
        return cmd_digests(args.prop, int(args.rest[0]))
    if args.selftest == "determinism":
        props = ([args.prop] if args.prop else []) + args.rest or sorted(PROPS)
        return cmd_selftest_determinism(props)
    if args.selftest:
        mod = importlib.import_module("selftest." + args.selftest)
        return mod.main(([args.prop] if args.prop else []) + args.rest)
    if args.prop not in PROPS:
        print("unknown property %r; known: %s" % (args.prop, ", ".join(sorted(PROPS))))
        return 2
    if args.replay:
        return cmd_replay(args.prop, args.replay)
    if args.tier not in ("quick", "thorough"):
        print("unknown tier")
        return 2
    return cmd_check(args.prop, args.tier, args.seed, args.runs, args.wall, args.workers, args.first)
