"""Engine G: grammar front-ends (C18).  DESIGN.md 5.6.

Simulation surface: CFG.generate draws from the process-global `random`; the
simulator replaces `discopy.grammar.cfg.random` by an object it owns, so every
shuffle outcome is a scheduler decision (fault F6), and several generate()
generators - lazy tasks sharing that one "global PRNG" - are interleaved,
abandoned (F2) or exhausted.  The parser, CCG-tree and biclosed->rigid clauses
have no nondeterminism; they ride along in the same runs with plain oracles
(M4: derivation checker, independent slash-type wire count)."""
from sim import world as W
from sim import build as B
from sim.core import (World as BaseWorld, Violation, HarnessError, LineTracer, Budget, Interrupt, h64)

NAME = "grammar"


def make_config(prop, rng, tier):
    return {
        "prop": prop, "tier": tier, "max_steps": rng.choice([20, 40, 60]),
        "n_symbols": rng.randint(1, 4), "n_productions": rng.randint(1, 7),
        "p_empty_rhs": rng.choice([0.2, 0.4, 0.7]),
        "shuffle_policy": rng.choice(["random", "random", "constant", "alternate", "reverse"]),
        "p_abandon": rng.choice([0.0, 0.1, 0.3]),
        "p_interrupt": rng.choice([0.0, 0.0, 0.05, 0.15]),
        "mix": rng.choice([[6, 2, 2], [3, 4, 3], [2, 2, 6], [8, 1, 1]]),   # cfg, pregroup, biclosed
        "type_depth": rng.choice([1, 2, 2, 3]), "type_len": rng.choice([1, 2, 2, 3]),
        **({"n_productions": rng.randint(6, 11), "max_steps": 100}
           if tier == "thorough" and rng.random() < 0.3 else {}),
    }


# ---------------------------------------------------------------------------
# the PRNG seam
# ---------------------------------------------------------------------------

import random as _stdrandom


class SimRandom(_stdrandom.Random):
    """Stands in for the `random` module inside discopy.grammar.cfg.  It is a
    random.Random whose two primitives, random() and getrandbits(), read the
    next recorded decision, so every derived method (shuffle, choice, sample,
    randrange, ...) is a pure function of the decision list; seed() is recorded
    and ignored; Random(...) hands out the same object, so that private
    generator instances are owned by the simulator too."""
    def __init__(self):
        super().__init__(0)
        self.decisions, self.k = [0], 0
        self.shuffles = 0
        self.seeds = []

    def load(self, decisions):
        self.decisions, self.k = list(decisions) or [0], 0

    def _next(self):
        d = self.decisions[self.k % len(self.decisions)]
        self.k += 1
        self.shuffles += 1
        return d

    def seed(self, value=None, version=2):
        if hasattr(self, "seeds"):
            self.seeds.append(value)          # recorded and ignored

    def random(self):
        return (self._next() % 65536) / 65536.0

    def getrandbits(self, k):
        out, got = 0, 0
        while got < k:
            out = (out << 16) | (self._next() % 65536)
            got += 16
        return out >> (got - k)

    def _randbelow(self, n):
        # (the stock implementation rejects and redraws, which need not terminate on a cyclic
        # decision list; one decision per draw, reduced modulo n)
        return self._next() % n if n > 0 else 0

    def Random(self, *args):
        return self

    def SystemRandom(self, *args):
        return self


# ---------------------------------------------------------------------------
# M4: independent image of biclosed types in the free rigid category
# ---------------------------------------------------------------------------

def _adj(ws, dz):
    return [(n, z + dz) for n, z in reversed(ws)]


def img(t):
    """Wires (name, z) of the rigid image of a biclosed type, from the slash
    structure alone: (l << r) -> img(l) @ img(r).l ; (l >> r) -> img(l).r @ img(r)."""
    cls = type(t).__name__
    if cls == "Over":
        return img(t.left) + _adj(img(t.right), -1)
    if cls == "Under":
        return _adj(img(t.left), +1) + img(t.right)
    out = []
    for ob in t.objects:
        if type(ob).__name__ in ("Over", "Under"):
            out += img(ob)
        else:
            out.append((str(ob.name), 0))
    return out


def rigid_atoms(ty):
    return [(str(o.name), int(o.z)) for o in ty.objects]


def mk_bty(spec):
    """biclosed type from a nested spec: ["ty", name] | ["over", l, r] | ["under", l, r] | ["tensor", [..]]"""
    from discopy import biclosed as BC
    k = spec[0]
    if k == "ty":
        return BC.Ty(spec[1])
    if k == "over":
        return mk_bty(spec[1]) << mk_bty(spec[2])
    if k == "under":
        return mk_bty(spec[1]) >> mk_bty(spec[2])
    if k == "tensor":
        t = BC.Ty()
        for f in spec[1]:
            t = t @ mk_bty(f)
        return t
    raise HarnessError("bad type spec %r" % (spec,))


def gen_bty(rng, depth, maxlen):
    def factor(d):
        if d == 0 or rng.random() < 0.4:
            return ["ty", rng.choice("xyz")]
        l, r = gen_bty(rng, d - 1, maxlen), gen_bty(rng, d - 1, maxlen)
        if rng.random() < 0.06:
            l = ["tensor", []]          # a slash type with an empty side
        elif rng.random() < 0.06:
            r = ["tensor", []]
        return ["over" if rng.random() < 0.5 else "under", l, r]
    n = rng.randint(1, maxlen)
    if n == 1:
        return factor(depth)
    return ["tensor", [factor(depth) for _ in range(n)]]


def spec_wires(spec):
    if spec[0] == "ty":
        return 1
    if spec[0] == "tensor":
        return sum(spec_wires(f) for f in spec[1])
    return spec_wires(spec[1]) + spec_wires(spec[2])      # (an empty side counts 0)


def gen_bty_bounded(rng, depth, maxlen, max_wires=5):
    for _ in range(6):
        spec = gen_bty(rng, depth, maxlen)
        if spec_wires(spec) <= max_wires:
            return spec
    return ["ty", rng.choice("xyz")]


def cat_string(rng, depth):
    """random CCG category string and its biclosed type spec"""
    if depth == 0 or rng.random() < 0.4:
        a = rng.choice(["S", "NP", "N", "PP"])
        mod = rng.choice(["", "", "[dcl]", "[nb]"])
        return a + mod, ["ty", a]
    (ls, lt), (rs, rt) = cat_string(rng, depth - 1), cat_string(rng, depth - 1)
    par = lambda s: "(" + s + ")" if ("/" in s or "\\" in s) else s
    if rng.random() < 0.5:
        return par(ls) + "/" + par(rs), ["over", lt, rt]
    return par(ls) + "\\" + par(rs), ["under", rt, lt]     # X\Y takes Y on its left


def well_typed_generic(d, kind, what):
    B.require_well_typed(d, kind, what)


# ---------------------------------------------------------------------------
# world
# ---------------------------------------------------------------------------

class World(BaseWorld):
    def __init__(self, prop, cfg):
        super().__init__(prop, cfg)
        W.load()
        W.MON.fired.clear()
        W.MON.raise_on_fire = False
        from discopy.grammar import cfg as cfgmod
        self.cfgmod = cfgmod
        self.rnd = SimRandom()
        cfgmod.random = self.rnd             # the seam: a module attribute, no repo change
        self.grammars, self.tasks = {}, {}

    def vio(self, what, msg, **details):
        return Violation("%s.%s" % (self.prop, what), msg, details)

    def apply(self, op):
        fn = getattr(self, "op_" + op["op"], None)
        if fn is None:
            raise HarnessError("unknown op %r" % op["op"])
        W.MON.fired.clear()
        self.lib_raised = False
        out = fn(op)
        self.monitor_after_op(op)
        self.note("op_" + op["op"])
        return out

    def finish(self):
        for t in self.tasks.values():
            if t["status"] == "live":
                t["gen"].close()
        self.counters["F6_shuffle_decisions"] = self.rnd.shuffles
        self.counters["F6_seed_calls_ignored"] = len(self.rnd.seeds)

    # -- CFG -----------------------------------------------------------------
    def op_cfg_new(self, op):
        from discopy.monoidal import Ty
        cfgmod = self.cfgmod
        prods = []
        for p in op["productions"]:
            cod = Ty(*p["cod"]) if isinstance(p["cod"], list) else Ty(p["cod"])
            prods.append(cfgmod.Word(p["name"], cod, dom=Ty(*p["dom"])))
        g = cfgmod.CFG(*prods)
        self.grammars[op["slot"]] = {"real": g, "prods": prods, "spec": op["productions"],
                                     "fp": repr(g.productions)}
        return "ok %d productions" % len(prods)

    def op_cfg_churn(self, op):
        """Many short-lived grammars, one after the other: each is built, asked for a few sentences and
        dropped, so that later grammars are allocated where earlier ones lived."""
        import random as _random
        import gc
        from discopy.monoidal import Ty
        rng = _random.Random(op["seed"])
        cfgmod = self.cfgmod
        for k in range(op["n"]):
            symbols = ["S", "A", "B"][:rng.randint(1, 3)]
            prods = [cfgmod.Word("g%d_%d" % (k, j), Ty(rng.choice(symbols)),
                                 dom=Ty(*[rng.choice(symbols) for _ in range(rng.choice([0, 0, 1, 2]))]))
                     for j in range(rng.randint(1, 5))]
            g = cfgmod.CFG(*prods)
            entry = {"real": g, "prods": prods, "fp": repr(g.productions)}
            self.rnd.load([rng.getrandbits(12) for _ in range(6)])
            try:
                # (no line budget here: tracing costs a factor of ten and max_iter bounds the loop)
                for sentence in g.generate(Ty(symbols[0]), 2, rng.choice([2, 4]), max_iter=6):
                    self.check_sentence(sentence, entry, symbols[0])
                    self.note("churn_sentences")
            except Violation:
                raise
            except Exception as err:
                raise self.vio("generate-exception", "CFG.generate raised %s: %s" % (
                    type(err).__name__, str(err)[:200]))
            del g, entry, prods
            if k % 7 == 0:
                gc.collect()
        self.note("churn_grammars", op["n"])
        return "ok"

    def op_gen_start(self, op):
        from discopy.monoidal import Ty
        g = self.grammars.get(op["grammar"])
        if g is None:
            return "skipped"
        not_twice = [g["prods"][k] for k in op.get("not_twice", []) if k < len(g["prods"])]
        gen = g["real"].generate(
            Ty(op["start"]), op["max_sentences"], op["max_depth"], max_iter=op["max_iter"],
            remove_duplicates=op["remove_duplicates"], not_twice=not_twice or None, seed=op.get("seed"))
        self.tasks[op["task"]] = {"gen": gen, "grammar": op["grammar"], "start": op["start"],
                                  "status": "live", "yielded": 0, "op": op}
        return "ok"

    def op_gen_next(self, op):
        t = self.tasks.get(op["task"])
        if t is None or t["status"] != "live":
            return "skipped"
        g = self.grammars[t["grammar"]]
        self.rnd.load(op["shuffles"])
        try:
            if op.get("interrupt_at"):
                tracer = LineTracer(lib_prefix(), "interrupt", op["interrupt_at"])
                try:
                    with tracer:
                        sentence = next(t["gen"])
                except (StopIteration, Interrupt):
                    raise
                except Exception:
                    if tracer.fired:
                        raise Interrupt("converted")
                    raise
                self.note("F5_missed")
            else:
                with LineTracer(lib_prefix(), "budget", 400000):
                    sentence = next(t["gen"])
        except Interrupt:
            t["status"] = "dead"      # a generator interrupted inside next() is finished (Python semantics);
            self.note("F5_fired")     # the other generators and the grammar must be unaffected
            if repr(g["real"].productions) != g["fp"]:
                raise self.vio("grammar-changed", "an interrupted generate() changed the grammar's productions")
            return "interrupted"
        except StopIteration:
            t["status"] = "done"
            self.note("generators_exhausted")
            self.case("gen_done", g["fp"], t["op"]["start"], t["op"]["max_depth"], t["yielded"])
            return "exhausted after %d" % t["yielded"]
        except Budget:
            t["status"] = "dead"
            self.note("generate_budget_exceeded")
            return "budget"
        except HarnessError:
            raise
        except Exception as err:
            t["status"] = "dead"
            raise self.vio("generate-exception", "CFG.generate raised %s: %s" % (
                type(err).__name__, str(err)[:200]))
        t["yielded"] += 1
        self.note("sentences")
        self.check_sentence(sentence, g, t["start"])
        # sentences already handed out stay what they were while the generator moves on
        kept = t.setdefault("kept", [])
        for old, old_repr in kept:
            if repr(old) != old_repr or B.public_scan_problem(old):
                raise self.vio("sentence-changed-later", "a sentence yielded earlier is no longer the diagram "
                               "it was when it was yielded (now %s)" % repr(old)[:200])
        kept.append((sentence, repr(sentence)))
        if len(kept) > 5:
            del kept[1]
        self.note("kept_sentences_rechecked", len(kept) - 1)
        if g["real"].productions is None or repr(g["real"].productions) != g["fp"]:
            raise self.vio("grammar-changed", "generate changed the grammar's productions")
        return "sentence of %d boxes" % len(sentence)

    def check_sentence(self, s, g, start):
        from discopy.monoidal import Ty
        B.require_well_typed(s, "%s.ill-typed" % self.prop, "generated sentence")
        if s.cod != Ty(start):
            raise self.vio("sentence-cod", "generated sentence derives %s, not the start symbol %s" % (s.cod, start))
        for box in s.boxes:
            if not any(box == p for p in g["prods"]):
                raise self.vio("foreign-production", "generated sentence uses %r, which is not a production "
                               "of the grammar" % (box,))
        if s.dom != Ty():
            # the only terminal symbol is Ty(): what is handed out as a sentence has no open symbol left
            raise self.vio("sentence-incomplete", "generated sentence still has the open symbols %s" % s.dom)
        self.note("sentence_complete")
        # recorded, not asserted: the derivation is leftmost
        cur, leftmost = [start], True
        for box, off in reversed(list(zip(s.boxes, s.offsets))):
            if off != 0 or not cur or [str(o.name) for o in box.cod.objects] != cur[:1]:
                leftmost = False
                break
            cur = [str(o.name) for o in box.dom.objects] + cur[1:]
        if leftmost:
            self.note("sentence_leftmost")
        self.case("sentence", g["fp"], repr(s))
        if len(s) >= 3:
            self.note("probe_sentence_depth_ge3")

    def op_gen_close(self, op):
        t = self.tasks.get(op["task"])
        if t is None or t["status"] != "live":
            return "skipped"
        t["gen"].close()
        t["status"] = "closed"
        self.note("F2_abandoned_midstream" if t["yielded"] else "F2_abandoned_fresh")
        return "closed"

    # -- pregroup parser -------------------------------------------------------
    def _words(self, specs):
        from discopy.rigid import Ty, Ob
        from discopy.grammar.pregroup import Word
        return [Word(w["name"], Ty(*[Ob(a[0], a[1]) for a in w["ty"]])) for w in specs]

    def check_parse(self, d, words, target, what):
        from discopy.rigid import Ty, Cup
        B.require_well_typed(d, "%s.ill-typed" % self.prop, what)
        if d.dom != Ty():
            raise self.vio("parse-dom", "%s has non-empty domain %s" % (what, d.dom))
        if d.cod != target:
            raise self.vio("parse-cod", "%s has codomain %s, requested %s" % (what, d.cod, target))
        n = len(words)
        if len(d) < n or d.boxes[:n] != list(words):
            raise self.vio("parse-words", "%s does not start with the given words in order" % what)
        pos = 0
        for k in range(n):
            if d.offsets[k] != pos:
                raise self.vio("parse-words", "word %d of %s is not placed after the previous words" % (k, what))
            pos += len(words[k].cod)
        layers = list(d.layers)
        for k in range(n, len(d)):
            box = d.boxes[k]
            if not isinstance(box, Cup):
                raise self.vio("parse-cups", "%s contains %r after the words" % (what, box))
            left, right = box.dom[:1], box.dom[1:]
            if left.r != right:
                raise self.vio("parse-cups", "%s cups %s with %s, which is not its right adjoint" % (
                    what, left, right))
        return True

    def op_parse(self, op):
        from discopy.rigid import Ty, Ob
        from discopy.grammar.pregroup import eager_parse
        words = self._words(op["words"])
        target = Ty(*[Ob(a[0], a[1]) for a in op["target"]])
        if op.get("interrupt_at"):
            try:
                with LineTracer(lib_prefix(), "interrupt", op["interrupt_at"]):
                    eager_parse(*words, target=target)
                self.note("F5_missed")
            except Interrupt:
                self.note("F5_fired")          # ... and the same request is made again below
            except Exception:
                pass
        try:
            d = eager_parse(*words, target=target)
        except NotImplementedError:
            self.lib_raised = True
            self.note("parse_refused")
            return "refused"
        except Exception as err:
            raise self.vio("parse-exception", "eager_parse raised %s: %s" % (type(err).__name__, str(err)[:200]))
        self.check_parse(d, words, target, "eager_parse result")
        self.note("parses")
        self.case("parse", repr(d))
        if len(d) - len(words) >= 3:
            self.note("probe_parse_with_ge3_cups")
        return "parsed with %d cups" % (len(d) - len(words))

    def op_brute_start(self, op):
        from discopy.rigid import Ty, Ob
        from discopy.grammar.pregroup import brute_force
        vocab = self._words(op["vocab"])
        target = Ty(*[Ob(a[0], a[1]) for a in op["target"]])
        self.tasks[op["task"]] = {"gen": brute_force(*vocab, target=target), "status": "live",
                                  "vocab": vocab, "target": target, "yielded": 0, "kind": "brute"}
        return "ok"

    def op_brute_next(self, op):
        t = self.tasks.get(op["task"])
        if t is None or t["status"] != "live" or t.get("kind") != "brute":
            return "skipped"
        try:
            with LineTracer(lib_prefix(), "budget", op.get("budget", 150000)):
                d = next(t["gen"])
        except Budget:
            t["status"] = "dead"       # the search is infinite: no verdict about productivity
            self.note("brute_force_budget_abandoned")
            return "budget"
        except StopIteration:
            t["status"] = "done"
            return "done"
        except Exception as err:
            t["status"] = "dead"
            raise self.vio("parse-exception", "brute_force raised %s: %s" % (type(err).__name__, str(err)[:200]))
        n = 0
        while n < len(d) and d.boxes[n] in t["vocab"]:
            n += 1
        self.check_parse(d, d.boxes[:n], t["target"], "brute_force result")
        t["yielded"] += 1
        self.note("brute_force_sentences")
        self.case("brute", repr(d))
        return "sentence of %d words" % n

    # -- biclosed -> rigid -----------------------------------------------------
    def check_translation(self, d, what):
        from discopy.biclosed import biclosed2rigid
        try:
            r = biclosed2rigid(d)
        except Exception as err:
            raise self.vio("translate-exception", "biclosed2rigid(%s) raised %s: %s" % (
                what, type(err).__name__, str(err)[:200]))
        B.require_well_typed(r, "%s.ill-typed" % self.prop, "image of " + what)
        if rigid_atoms(r.dom) != img(d.dom):
            raise self.vio("translate-dom", "image of %s: domain %s is not the image of %s" % (what, r.dom, d.dom))
        if rigid_atoms(r.cod) != img(d.cod):
            raise self.vio("translate-cod", "image of %s: codomain %s is not the image of %s" % (what, r.cod, d.cod))
        return r

    def op_translate(self, op):
        from discopy import biclosed as BC
        a, b, c = mk_bty(op["a"]), mk_bty(op["b"]), mk_bty(op["c"])
        kind = op["kind"]
        if kind == "FA":
            d = BC.FA(a << b)
        elif kind == "BA":
            d = BC.BA(a >> b)
        elif kind == "FC":
            d = BC.FC(a << b, b << c)
        elif kind == "BC":
            d = BC.BC(a >> b, b >> c)
        elif kind == "FX":
            d = BC.FX(a << b, c >> b)
        elif kind == "BX":
            d = BC.BX(a << b, a >> c)
        elif kind == "Curry":
            d = BC.Curry(BC.Box("f", a @ b, c), n_wires=len(b))
        elif kind == "CurryL":
            d = BC.Curry(BC.Box("f", a @ b, c), n_wires=len(a), left=True)
        elif kind == "boxes":
            d = BC.Box("g", a, b) @ BC.Id(c) >> BC.Box("h", b @ c, a)
        elif kind == "api":      # the Diagram.fa/ba/... factories
            d = BC.Diagram.fa(a, b) @ BC.Id(c) if op.get("which", 0) % 2 == 0 else BC.Id(c) @ BC.Diagram.ba(a, b)
        else:
            raise HarnessError(kind)
        if op.get("pre"):
            # another functor on biclosed diagrams (the identity one) is applied first: what it
            # computes or remembers must not influence biclosed2rigid
            idf = BC.Functor(ob=lambda x: x, ar=lambda f: f)
            try:
                idf(d)        # its own result is not judged: the statement is about biclosed -> rigid only
            except Exception:
                self.note("pre_functor_raised")
            self.note("pre_functor_applied")
        self.check_translation(d, kind)
        self.note("translations")
        self.note("translate_" + kind)
        self.case("translate", kind, op["a"], op["b"], op["c"])
        if max(len(img(a)), len(img(b)), len(img(c))) >= 3:
            self.note("probe_side_with_ge3_wires")
        return "ok"

    def op_word(self, op):
        """a CCG leaf with a non-empty domain (tree2diagram(leaf, dom=...)) and its rigid image"""
        from discopy.grammar.ccg import tree2diagram
        dom = mk_bty(op["dom"])
        try:
            d = tree2diagram({"word": op["word"], "cat": op["cat"]}, dom=dom)
        except Exception as err:
            raise self.vio("tree-exception", "tree2diagram raised %s: %s" % (type(err).__name__, str(err)[:200]))
        B.require_well_typed(d, "%s.ill-typed" % self.prop, "tree2diagram result")
        if img(d.dom) != img(dom) or img(d.cod) != img(mk_bty(op["cat_spec"])):
            raise self.vio("tree-cod", "tree2diagram of a leaf has type %s -> %s" % (d.dom, d.cod))
        self.check_translation(d, "CCG word with a domain")
        self.note("words_with_domain")
        self.case("word", op["word"], op["cat"], op["dom"])
        return "ok"

    def op_tree(self, op):
        from discopy.grammar.ccg import tree2diagram, cat2ty
        from discopy import biclosed as BC
        tree = op["tree"]
        try:
            d = tree2diagram(tree)
        except Exception as err:
            raise self.vio("tree-exception", "tree2diagram raised %s: %s" % (type(err).__name__, str(err)[:200]))
        B.require_well_typed(d, "%s.ill-typed" % self.prop, "tree2diagram result")
        want = mk_bty(op["cat_spec"])
        if img(d.cod) != img(want) or d.cod != cat2ty(tree["cat"]):
            raise self.vio("tree-cod", "tree2diagram result has codomain %s, the tree's category is %s" % (
                d.cod, tree["cat"]))
        if len(d.dom):
            raise self.vio("tree-dom", "tree2diagram result has non-empty domain")
        self.check_translation(d, "CCG tree")
        self.note("trees")
        self.case("tree", tree)
        return "ok %d boxes" % len(d)


def lib_prefix():
    import os
    return os.path.join(os.path.realpath(W.REPO), "discopy") + os.sep


# ---------------------------------------------------------------------------
# driver
# ---------------------------------------------------------------------------

class Driver:
    def __init__(self, prop, cfg, streams):
        self.cfg, self.s = cfg, streams
        self.ng, self.nt = 0, 0
        self.symbols = ["S", "A", "B", "C"][:cfg["n_symbols"]]

    def grammar(self):
        gen, cfg = self.s["gen"], self.cfg
        prods = []
        for k in range(cfg["n_productions"]):
            cod = gen.choice(self.symbols)
            if gen.random() < cfg["p_empty_rhs"]:
                dom = []
            else:
                dom = [gen.choice(self.symbols) for _ in range(gen.randint(1, 3))]
            prods.append({"name": "p%d" % k, "cod": cod, "dom": dom})
        if prods and gen.random() < 0.15:
            prods.append(dict(gen.choice(prods)))          # the same production listed twice
        if gen.random() < 0.15:
            # a box whose codomain is not one symbol: a grammar may contain it, but no
            # derivation step rewrites a single symbol with it, so it can never be used
            prods.append({"name": "wide", "cod": [gen.choice(self.symbols), gen.choice(self.symbols)],
                          "dom": [gen.choice(self.symbols)] if gen.random() < 0.5 else []})
            self.wide = True
        return prods

    def shuffles(self, n=12):
        peer, pol = self.s["peer"], self.cfg["shuffle_policy"]
        if pol == "constant":
            return [peer.getrandbits(12)]
        if pol == "alternate":
            return [0, peer.getrandbits(12)]
        if pol == "reverse":
            return [5039, 0]         # 5039 = 7! - 1: full reversal for lists up to 7
        return [peer.getrandbits(16) for _ in range(n)]

    def rigid_ty(self, maxlen=2):
        gen = self.s["gen"]
        return [[gen.choice("ns"), gen.choice([0, 0, 0, 1, -1])] for _ in range(gen.randint(1, maxlen))]

    def parse_case(self):
        """words built backwards from a derivation so that most sequences parse"""
        gen = self.s["gen"]
        target = self.rigid_ty(2) if gen.random() < 0.93 else []       # the unit type is a legal target
        wires = [list(a) for a in target]
        for _ in range(gen.randint(0, 5)):
            p = gen.randint(0, len(wires))
            a = [gen.choice("ns"), gen.choice([0, 0, 1, -1, 2])]
            wires[p:p] = [a, [a[0], a[1] + 1]]
        if wires and gen.random() < 0.2:        # perturb: most of these are ungrammatical
            wires[gen.randrange(len(wires))][1] += gen.choice([1, -1])
        words, k = [], 0
        while wires:
            n = gen.randint(1, min(3, len(wires)))
            words.append({"name": "w%d" % k, "ty": wires[:n]})
            wires, k = wires[n:], k + 1
            if gen.random() < 0.08:
                words.append({"name": "e%d" % k, "ty": []})      # a word with the empty type
        if gen.random() < 0.03:
            words = []                                            # no words at all
        if gen.random() < 0.15 and words:
            words[gen.randrange(len(words))]["name"] = words[0]["name"]     # the same word twice
        return words, target

    def next_op(self, world):
        sched, gen, fault, cfg = self.s["sched"], self.s["gen"], self.s["fault"], self.cfg
        mix = cfg["mix"]
        r = sched.random() * sum(mix)
        if r < mix[0]:
            return self.next_cfg(world)
        if r < mix[0] + mix[1]:
            live = sorted(t for t, v in world.tasks.items() if v["status"] == "live" and v.get("kind") == "brute")
            if live and sched.random() < 0.5:
                return {"op": "brute_next", "task": sched.choice(live), "budget": 150000}
            if sched.random() < 0.2 and len(live) < 2:
                vocab = [{"name": "v%d" % k, "ty": self.rigid_ty(3)} for k in range(gen.randint(1, 4))]
                if gen.random() < 0.7:
                    vocab.append({"name": "tgt", "ty": self.rigid_ty(1)})
                self.nt += 1
                tgt = vocab[-1]["ty"] if gen.random() < 0.7 else (self.rigid_ty(1) if gen.random() < 0.8 else [])
                return {"op": "brute_start", "task": "t%d" % (self.nt - 1), "vocab": vocab, "target": tgt}
            words, target = self.parse_case()
            op = {"op": "parse", "words": words, "target": target}
            if fault.random() < cfg.get("p_interrupt", 0.0):
                op["interrupt_at"] = max(1, int(3000 ** fault.random()))
            return op
        if sched.random() < 0.06:
            cat, spec = cat_string(gen, gen.choice([0, 1, 2]))
            return {"op": "word", "word": "w", "cat": cat, "cat_spec": spec,
                    "dom": gen_bty_bounded(gen, gen.choice([0, 1, 2]), 2, 4)}
        if sched.random() < 0.3:
            depth = gen.randint(0, 3)
            tree, spec = self.ccg_tree(depth)
            return {"op": "tree", "tree": tree, "cat_spec": spec}
        d, m = cfg["type_depth"], cfg["type_len"]
        op = {"op": "translate", "kind": gen.choice(["FA", "BA", "FC", "BC", "FX", "BX", "Curry", "CurryL",
                                                      "boxes", "api"]),
              "a": gen_bty_bounded(gen, d, m), "b": gen_bty_bounded(gen, d, m),
              "c": gen_bty_bounded(gen, d, m),
              "which": gen.randint(0, 1), "pre": gen.random() < 0.3}
        if op["kind"] in ("Curry", "CurryL") and gen.random() < 0.2:
            # currying wires that unfold to no rigid wire at all: a slash type with two empty sides
            # (one biclosed object, image Ty()), or no object (n_wires = 0)
            empty = ["tensor", []]
            op["b" if op["kind"] == "Curry" else "a"] = gen.choice([["over", empty, empty], ["under", empty, empty],
                                                                     empty])
        return op

    def next_cfg(self, world):
        sched, gen, fault, cfg = self.s["sched"], self.s["gen"], self.s["fault"], self.cfg
        live = sorted(t for t, v in world.tasks.items() if v["status"] == "live" and v.get("kind") != "brute")
        if world.grammars and sched.random() < 0.015:
            return {"op": "cfg_churn", "n": sched.choice([30, 60, 120]), "seed": gen.getrandbits(30)}
        if not world.grammars or (len(world.grammars) < 2 and sched.random() < 0.1):
            self.ng += 1
            return {"op": "cfg_new", "slot": "g%d" % (self.ng - 1), "productions": self.grammar()}
        if live and sched.random() < 0.75:
            t = sched.choice(live)
            if fault.random() < cfg["p_abandon"] * 0.3:
                return {"op": "gen_close", "task": t}
            op = {"op": "gen_next", "task": t, "shuffles": self.shuffles()}
            if fault.random() < cfg.get("p_interrupt", 0.0):
                op["interrupt_at"] = max(1, int(600 ** fault.random()))
            return op
        if len(live) < 3:
            self.nt += 1
            g = sched.choice(sorted(world.grammars))
            nprod = len(world.grammars[g]["prods"])
            return {"op": "gen_start", "task": "t%d" % (self.nt - 1), "grammar": g,
                    "start": gen.choice(self.symbols),
                    "max_sentences": gen.choice([0, None, 1, 2, 5]),
                    "max_depth": gen.choice([0, 1, 2, 4, 8]), "max_iter": gen.choice([1, 3, 10, 30]),
                    "remove_duplicates": gen.random() < 0.4,
                    "not_twice": [gen.randrange(nprod)] if gen.random() < 0.3 else [],
                    "seed": gen.choice([None, 0, 42])}
        return {"op": "gen_next", "task": sched.choice(live), "shuffles": self.shuffles()}

    def ccg_tree(self, depth):
        """random CCG derivation tree (depccg JSON) and the spec of its category"""
        gen = self.s["gen"]
        cat, spec = cat_string(gen, gen.choice([1, 2, 2, 3]))      # nested brackets up to three deep
        return self._tree(cat, spec, depth), spec

    def _tree(self, cat, spec, depth):
        gen = self.s["gen"]
        self._nw = getattr(self, "_nw", 0) + 1
        if depth == 0 or gen.random() < 0.3:
            return {"word": "w%d" % self._nw, "cat": cat}
        par = lambda s: "(" + s + ")" if ("/" in s or "\\" in s) else s
        ys, yt = cat_string(gen, gen.choice([0, 1, 1, 2]))
        kind = gen.choice(["fa", "ba", "fc", "other"])
        if kind == "fa":      # X/Y  Y  ->  X
            left = self._tree(par(cat) + "/" + par(ys), ["over", spec, yt], depth - 1)
            right = self._tree(ys, yt, depth - 1)
            return {"type": "fa", "cat": cat, "children": [left, right]}
        if kind == "ba":      # Y  X\Y  ->  X
            left = self._tree(ys, yt, depth - 1)
            right = self._tree(par(cat) + "\\" + par(ys), ["under", yt, spec], depth - 1)
            return {"type": "ba", "cat": cat, "children": [left, right]}
        if kind == "fc" and spec[0] == "over":     # X/Y  Y/Z -> X/Z
            xs_spec, zs_spec = spec[1], spec[2]
            xs, zs = self._render(xs_spec), self._render(zs_spec)
            left = self._tree(par(xs) + "/" + par(ys), ["over", xs_spec, yt], depth - 1)
            right = self._tree(par(ys) + "/" + par(zs), ["over", yt, zs_spec], depth - 1)
            return {"type": "fc", "cat": cat, "children": [left, right]}
        left = self._tree(ys, yt, depth - 1)
        arity = gen.choice([1, 2, 2, 3])
        kids = [left] + [{"word": "w%d_%d" % (self._nw, k), "cat": cat} for k in range(arity - 1)]
        return {"type": gen.choice(["conj", "lex", "tr"]), "cat": cat, "children": kids}

    def _render(self, spec):
        par = lambda s: "(" + s + ")" if ("/" in s or "\\" in s) else s
        if spec[0] == "ty":
            return spec[1]
        if spec[0] == "over":
            return par(self._render(spec[1])) + "/" + par(self._render(spec[2]))
        if spec[0] == "under":       # ["under", Y, X] is X\Y
            return par(self._render(spec[2])) + "\\" + par(self._render(spec[1]))
        raise HarnessError("cannot render %r" % (spec,))


def shrink_op(op):
    if op.get("op") == "cfg_new":
        prods = op["productions"]
        for k in reversed(range(len(prods))):
            cand = dict(op)
            cand["productions"] = prods[:k] + prods[k + 1:]
            yield cand
    if op.get("op") == "parse":
        ws = op["words"]
        for k in reversed(range(len(ws))):
            cand = dict(op)
            cand["words"] = ws[:k] + ws[k + 1:]
            yield cand
    if op.get("op") == "translate":
        for key in ("a", "b", "c"):
            if op[key][0] != "ty":
                cand = dict(op)
                cand[key] = ["ty", "x"]
                yield cand
                if op[key][0] == "tensor" and op[key][1]:
                    cand = dict(op)
                    cand[key] = op[key][1][0]
                    yield cand
                elif op[key][0] in ("over", "under"):
                    for sub in (1, 2):
                        cand = dict(op)
                        cand[key] = op[key][sub]
                        yield cand
    if op.get("op") == "gen_next" and len(op.get("shuffles", [])) > 1:
        cand = dict(op)
        cand["shuffles"] = op["shuffles"][:1]
        yield cand
