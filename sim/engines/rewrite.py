"""Engine R: rewrite-schedule simulator (C05, C06, C07).  DESIGN.md 5.1-5.3.

The system simulated is the rewriting relation on diagrams.  Walkers hold real
diagrams next to their M1 models; lazy normalisers / foliators obtained from
the library are tasks advanced one next() at a time by the scheduler and may
be abandoned (F2); requests may be illegal (F1); calls may be interrupted at
an arbitrary line (F5); returned containers may be scribbled on (F7)."""
import random

from sim import world as W
from sim import model as M
from sim import build as B
from sim.core import (World as BaseWorld, Violation, HarnessError, LineTracer,
                      Interrupt, Budget, h64)

NAME = "rewrite"
LIB_PREFIX = None


def lib_prefix():
    global LIB_PREFIX
    if LIB_PREFIX is None:
        import os
        LIB_PREFIX = os.path.join(os.path.realpath(W.REPO), "discopy") + os.sep
    return LIB_PREFIX


# ---------------------------------------------------------------------------
# configuration (swarm style)
# ---------------------------------------------------------------------------

def make_config(prop, rng, tier):
    cfg = {"prop": prop, "tier": tier}
    if prop == "C05":
        cfg.update({
            "cls": rng.choice(["monoidal", "monoidal", "rigid", "tensor", "circuit", "zx", "cartesian"]),
            "max_steps": rng.choice([20, 40, 60]),
            "nboxes": rng.randint(0, 9), "maxw": rng.choice([3, 4, 5, 6]),
            "atoms": rng.randint(1, 3),
            "p_degenerate": rng.choice([0.0, 0.3, 0.6, 0.9]),
            "p_samename": rng.choice([0.0, 0.25, 0.6]),
            "p_connected": rng.choice([0.2, 0.5, 0.8]),
            "walkers": rng.randint(1, 3),
            "p_illegal": rng.choice([0.0, 0.15, 0.3]),
            "p_interrupt": rng.choice([0.0, 0.0, 0.05, 0.15]),
            "p_scribble": rng.choice([0.0, 0.05]),
            "p_dagger": rng.choice([0.0, 0.05, 0.1]),
        })
    elif prop == "C06":
        cfg.update({
            # (no tensor clothing here: tensor.Box.__eq__ raises ValueError for arrays of different
            # shape under numpy 2, so any normaliser that compares two steps directly would "fail")
            "cls": rng.choice(["monoidal", "monoidal", "monoidal", "rigid_plain", "circuit"]),
            "max_steps": rng.choice([20, 35, 50]),
            "nboxes": rng.choice([0, 1, 2, 3, 4, 4, 5, 5, 6, 6, 7, 8]),
            "maxw": rng.choice([3, 4, 5, 6]), "atoms": rng.randint(1, 2),
            "p_degenerate": rng.choice([0.0, 0.2, 0.5, 0.9]),
            "p_samename": rng.choice([0.0, 0.25, 0.6]),
            "p_connected": rng.choice([0.6, 0.8, 1.0, 0.3]),
            "walkers": rng.randint(1, 3),
            "class_cap": rng.choice([200, 800, 3000]),
            "p_interrupt": rng.choice([0.0, 0.1, 0.3]),
            "p_abandon": rng.choice([0.0, 0.1, 0.3]),
            "members_per_check": rng.choice([8, 20, 60]),
        })
    elif prop == "C07":
        cfg.update({
            "cls": rng.choice(["rigid", "rigid", "rigid", "pro"]),
            "max_steps": rng.choice([15, 30, 45]),
            "nsteps": rng.randint(1, 10), "maxw": rng.choice([4, 5, 6]),
            "atoms": rng.randint(1, 2),
            "zs": rng.choice([[0, 0, 1, -1], [0, 0, 0, 1, -1, 2, -2], [0, 1, -1, 2, -2, 3, -3]]),
            "p_template": rng.choice([0.2, 0.5, 0.9]),
            "walkers": rng.randint(1, 2),
            "p_interrupt": rng.choice([0.0, 0.0, 0.1]),
            "p_abandon": rng.choice([0.0, 0.1, 0.3]),
        })
    else:
        raise HarnessError("engine rewrite does not serve " + prop)
    if tier == "thorough" and rng.random() < 0.3:
        # deeper bounds in a share of the thorough runs
        if prop == "C05":
            cfg.update({"nboxes": rng.randint(8, 12), "maxw": rng.choice([6, 7, 8]), "max_steps": 100})
        elif prop == "C06":
            cfg.update({"nboxes": rng.choice([7, 8, 8]), "class_cap": rng.choice([3000, 6000]),
                        "members_per_check": rng.choice([60, 100]), "max_steps": 50})
        else:
            cfg.update({"nsteps": rng.randint(9, 13), "maxw": rng.choice([6, 7]), "max_steps": 60})
    return cfg


# ---------------------------------------------------------------------------
# world
# ---------------------------------------------------------------------------

TRACE_CAP = 3000
LONG_TRACE_BUDGET = 60000000      # >= 25 x the 2.3M lines the dearest spiral we request costs
NF_MIN_BUDGET = 200000


class World(BaseWorld):
    def __init__(self, prop, cfg):
        super().__init__(prop, cfg)
        W.load()
        W.MON.fired.clear()
        W.MON.raise_on_fire = False
        W.MON.enabled = True
        self.slots = {}       # name -> dict(real, model, lineage)
        self.tasks = {}       # name -> dict
        self._den, self._den_key = None, None
        self.nf_done = {}
        self.nf_budget = {}

    # -- helpers -----------------------------------------------------------
    def vio(self, what, msg, **details):
        return Violation("%s.%s" % (self.prop, what), msg, details)

    def store(self, name, real, model, lineage):
        self.slots[name] = {"real": real, "model": model, "lineage": lineage}
        self.states.add(h64(model))

    def check_slots(self):
        for name, s in self.slots.items():
            if M.model_of(s["real"]) != s["model"]:
                raise self.vio("slot-changed", "slot %s changed behind the caller's back" % name)
            msg = B.public_scan_problem(s["real"])
            if msg:
                raise self.vio("slot-changed", "slot %s no longer well-typed: %s" % (name, msg))

    def monitor_check(self, op):
        fired = self.monitor_after_op(op)
        if fired and self.prop == "C07":
            raise self.vio("monitor", "intermediate %s ill-typed: %s" % (fired[1], fired[0]))

    def denot_equal(self, m0, m1, seed, what):
        key = (seed, m0)
        if self._den_key != key:
            try:
                self._den, self._den_key = M.Denotation(random.Random(seed), m0), key
            except M.ModelError as err:
                raise HarnessError("source model ill-typed: %s" % err)
        try:
            verdict = self._den.equal(m1)
        except M.ModelError as err:
            raise self.vio("ill-typed", "%s: %s" % (what, err))
        if verdict is None:
            self.note("m2_skipped")
        else:
            self.note("m2_compared")
        if verdict is False:
            raise self.vio("denotation", "%s denotes another morphism under an integer functor" % what)

    def check_value(self, got, src_model, what, same_type=True):
        """Well-typed (caller-side), dom/cod as the source's."""
        B.require_well_typed(got, "%s.ill-typed" % self.prop, what)
        gm = M.model_of(got)
        if same_type:
            if gm[0] != src_model[0] or M.cod_of(gm) != M.cod_of(src_model):
                raise self.vio("domcod", "%s changed domain or codomain" % what)
        return gm

    # -- dispatch ----------------------------------------------------------
    def apply(self, op):
        fn = getattr(self, "op_" + op["op"], None)
        if fn is None:
            raise HarnessError("unknown op %r" % op["op"])
        W.MON.fired.clear()
        self.lib_raised = False
        try:
            out = fn(op)
        except W.load()._verif.InvariantViolation as err:   # only if raise_on_fire
            raise self.vio("monitor", str(err))
        self.monitor_check(op)
        self.note("op_" + op["op"])
        if self.counters["ops_total"] % 8 == 7:
            self.check_slots()
        self.note("ops_total")
        return out

    def finish(self):
        self.check_slots()
        for t in self.tasks.values():
            if t["status"] == "live":
                t["gen"].close()

    # -- ops ---------------------------------------------------------------
    def op_new(self, op):
        try:
            real = B.build(op["spec"])
        except M.ModelError:
            return "skipped-illtyped-spec"
        for step in op.get("recipe", []):
            # inputs that come out of the library's own rigid constructions
            try:
                if step in ("transpose_l", "transpose_r"):
                    real = real.transpose(left=(step == "transpose_l"))
                elif step == "dagger":
                    real = real[::-1]
                elif step == "cup_close" and len(real.cod) and len(real.cod) <= 2:
                    real = real @ type(real).id(real.cod.r) >> type(real).cups(real.cod, real.cod.r)
                elif step == "cap_open" and len(real.dom) and len(real.dom) <= 2:
                    real = type(real).caps(real.dom.r, real.dom) >> type(real).id(real.dom.r) @ real
            except Exception as err:
                self.note("recipe_step_raised_" + type(err).__name__)
                return "skipped-recipe"
            self.note("recipe_" + step)
        model = M.model_of(real)
        B.require_well_typed(real, "%s.ill-typed" % self.prop, "constructed diagram")
        self.store(op["slot"], real, model, op["slot"])
        return "ok n=%d" % len(model[1])

    def op_fork(self, op):
        s = self.slots.get(op["src"])
        if s is None:
            return "skipped"
        self.slots[op["dst"]] = dict(s)
        return "ok"

    def op_dagger(self, op):
        s = self.slots.get(op["src"])
        if s is None:
            return "skipped"
        try:
            got = s["real"][::-1]
        except Exception as err:
            # e.g. cartesian boxes have no dagger (TypeError): an exception, not a value - the
            # walker simply stays where it is (DESIGN 13.2, observations)
            self.note("dagger_raised_" + type(err).__name__)
            return "raised"
        B.require_well_typed(got, "%s.ill-typed" % self.prop, "dagger")
        self.store(op["dst"], got, M.model_of(got), op["dst"])
        return "ok"

    def _call_interchange(self, real, i, j, left, interrupt_at=None):
        from discopy.rewriting import InterchangerError
        tracer = LineTracer(lib_prefix(), "interrupt", interrupt_at) if interrupt_at else None
        try:
            if tracer:
                try:
                    with tracer:
                        got = real.interchange(i, j, left=left)
                except Exception:
                    if tracer.fired:      # the interrupt was re-raised as something else by C code
                        raise Interrupt("converted")
                    raise
            else:
                got = real.interchange(i, j, left=left)
            return "value", got
        except InterchangerError:
            self.lib_raised = True
            return "InterchangerError", None
        except IndexError:
            self.lib_raised = True
            return "IndexError", None
        except Interrupt:
            return "interrupted", None
        except NotImplementedError:
            return "NotImplementedError", None
        except Exception as err:
            return "exception:" + type(err).__name__, err

    def op_interchange(self, op):
        s = self.slots.get(op["src"])
        if s is None:
            return "skipped"
        real, model = s["real"], s["model"]
        i, j, left = op["i"], op["j"], op["left"]
        n = len(model[1])
        ana = M.move_analysis(model, i, j)
        if ana == "IndexError":
            options, expect = set(), ("IndexError",)
        else:
            options, always = ana
            if not options:
                expect = ("InterchangerError",)
            elif always:
                expect = ("value",)
            else:       # degenerate: some tie-breaks get through, some are blocked
                expect = ("value", "InterchangerError")
                self.note("probe_tiebreak_dependent_refusal")
        outcome, got = self._call_interchange(real, i, j, left, op.get("interrupt_at"))
        if outcome == "interrupted":
            self.note("F5_fired")
            self.check_slots()
            return "interrupted"
        if op.get("interrupt_at"):
            self.note("F5_missed")
        if "value" not in expect:
            self.note("F1_illegal_" + expect[0])
        if outcome not in expect:
            raise self.vio("outcome", "interchange(%d, %d, left=%s) on %d boxes: expected %s, got %s"
                           % (i, j, left, n, "/".join(expect), outcome), got=repr(got)[:300])
        if outcome != "value":
            if M.model_of(real) != model:
                raise self.vio("slot-changed", "refused interchange changed its input")
            return outcome
        gm = self.check_value(got, model, "interchange result")
        if gm not in options:
            raise self.vio("boxes-offsets",
                           "interchange(%d, %d, left=%s): result is not box %d moved to position %d "
                           "past disjoint boxes" % (i, j, left, i, j),
                           got=list(gm[2]), src=list(model[2]))
        if gm == M.interchange(model, i, j, left):
            self.note("agrees_with_preference_rule")
        if type(got) is not type(real):
            self.note("class_changed")      # recorded, not asserted: the statement is silent
        if i != j:
            self.denot_equal(model, gm, op.get("m2seed", 0), "interchange result")
            self.case("move", model, i, j, left)
            probe_shapes(self, model, i, j)
        self.store(op["dst"], got, gm, s["lineage"])
        return "value"

    def op_subs(self, op):
        """substitute the symbol phi in box data; the result is a diagram like any other and
        is normalised, interchanged ... afterwards"""
        s = self.slots.get(op["src"])
        if s is None:
            return "skipped"
        import sympy
        try:
            got = s["real"].subs(sympy.Symbol("phi"), op["value"])
        except Exception as err:
            self.note("subs_raised_" + type(err).__name__)
            return "raised"
        B.require_well_typed(got, "%s.ill-typed" % self.prop, "subs result")
        self.counters["subs_lineages"] += 1
        self.store(op["dst"], got, M.model_of(got), "%s#subs%d" % (op["dst"], self.counters["subs_lineages"]))
        self.note("subs_done")
        return "ok"

    def op_long_trace(self, op):
        """A connected diagram whose normalisation takes about n**3 / 3 * 4 steps (the spiral of
        arXiv:1804.07832, 2n+2 boxes on up to 2n+1 wires; 1 140 steps for n = 9): normal_form must
        still terminate with a well-typed rearrangement of the input that is a fixed point.  Too wide
        for M2 and for stepping the trace through M1; termination and typing only."""
        n, left = op["n"], op["left"]
        x = [["x", 0]]
        boxes = [{"name": "unit", "dom": [], "cod": x, "kind": "box"}]
        offsets = [0]
        for i in range(n):
            boxes.append({"name": "cap", "dom": [], "cod": x + x, "kind": "box"})
            offsets.append(i)
        boxes.append({"name": "counit", "dom": x, "cod": [], "kind": "box"})
        offsets.append(n)
        for i in range(n):
            boxes.append({"name": "cup", "dom": x + x, "cod": [], "kind": "box"})
            offsets.append(n - i - 1)
        real = B.build({"cls": op.get("cls", "monoidal"), "dom": [], "boxes": boxes, "offsets": offsets})
        if op.get("dagger"):
            real = real[::-1]
        model = M.model_of(real)
        outcome, nf = self._normal_form(real, left, LONG_TRACE_BUDGET)
        if outcome != "value":
            raise self.vio("termination" if outcome in ("budget", "NotImplementedError") else "exception",
                           "normal_form of the connected %d-turn spiral (%d boxes) gave %s" % (
                               n, len(model[1]), outcome))
        nm = self.check_value(nf, model, "normal form of a spiral")
        if not M.same_boxes(model, nm):
            raise self.vio("boxes", "normal form of a spiral has other boxes than its input")
        o2, nf2 = self._normal_form(nf, left, LONG_TRACE_BUDGET)
        if o2 != "value" or nf2 != nf:
            raise self.vio("fixed-point", "normal_form(normal_form(spiral)) is %s" % (
                o2 if o2 != "value" else "another diagram"))
        self.note("long_traces")
        self.case("spiral", n, left, bool(op.get("dagger")))
        return "ok"

    def op_normal_form_custom(self, op):
        """normal_form with an explicitly given normaliser (the interchanger-only one): a sound
        rewrite of the input; what it leaves on the diagram must not change later answers"""
        s = self.slots.get(op["src"])
        if s is None:
            return "skipped"
        from discopy import monoidal
        real, model = s["real"], s["model"]
        try:
            with LineTracer(lib_prefix(), "budget", NF_MIN_BUDGET * 10):
                nf = real.normal_form(normalizer=monoidal.Diagram.normalize, left=op["left"])
        except (NotImplementedError, Budget):
            self.note("custom_normalizer_refused")
            return "refused"
        except Exception as err:
            raise self.vio("exception", "normal_form(normalizer=monoidal.Diagram.normalize) raised %s: %s" % (
                type(err).__name__, str(err)[:150]))
        nm = self.check_value(nf, model, "interchanger-only normal form")
        if not M.same_boxes(model, nm):
            raise self.vio("boxes", "interchanger-only normal form has other boxes than its input")
        self.denot_equal(model, nm, op.get("m2seed", 0), "interchanger-only normal form")
        self.note("custom_normalizer_used")
        return "value"

    def op_scribble(self, op):
        s = self.slots.get(op["src"])
        if s is None:
            return "skipped"
        real = s["real"]
        what = op["what"]
        lst = real.boxes if what == "boxes" else real.offsets if what == "offsets" \
            else real.dom.objects
        if lst:
            lst.reverse()
            lst.pop()
        lst.append(lst[0] if lst else 0)
        self.note("F7_fired")
        if M.model_of(real) != s["model"]:
            raise self.vio("slot-changed", "mutating the list returned by .%s changed the diagram" % what)
        msg = B.public_scan_problem(real)
        if msg:
            raise self.vio("slot-changed", "after scribbling on .%s: %s" % (what, msg))
        return "ok"

    # -- lazy tasks ----------------------------------------------------------
    def op_task_start(self, op):
        s = self.slots.get(op["src"])
        if s is None:
            return "skipped"
        real = s["real"]
        kind = op["kind"]
        if kind == "normalize":
            gen = real.normalize(left=op["left"])
        elif kind == "foliate":
            gen = real.foliate()
        else:
            raise HarnessError("unknown task kind")
        self.tasks[op["task"]] = {
            "gen": gen, "src": op["src"], "kind": kind, "left": op.get("left", False),
            "src_model": s["model"], "prev": s["model"], "seen": set(), "status": "live",
            "steps": 0, "real_src": real, "last": real, "cycle": False,
            "m2seed": op.get("m2seed", 0)}
        return "ok"

    def op_task_next(self, op):
        t = self.tasks.get(op["task"])
        if t is None or t["status"] != "live":
            return "skipped"
        tracer = LineTracer(lib_prefix(), "interrupt", op["interrupt_at"]) if op.get("interrupt_at") else None
        try:
            if tracer:
                try:
                    with tracer:
                        got = next(t["gen"])
                except (StopIteration, Interrupt):
                    raise
                except Exception:
                    if tracer.fired:
                        raise Interrupt("converted")
                    raise
                self.note("F5_missed")
            else:
                got = next(t["gen"])
        except StopIteration:
            t["status"] = "done"
            self.note("trace_ended")
            self.case("trace", t["src_model"], t["kind"], t["left"])
            return "done after %d" % t["steps"]
        except Interrupt:
            t["status"] = "dead"
            self.note("F5_fired")
            self.check_slots()
            return "interrupted"
        except NotImplementedError as err:
            t["status"] = "dead"
            if t["kind"] != "normalize" or M.is_connected(t["src_model"]):
                raise self.vio("termination" if t["kind"] == "normalize" else "exception",
                               "%s raised NotImplementedError at step %d: %s" % (t["kind"], t["steps"], str(err)[:120]))
            self.note("normaliser_refused_disconnected")      # reported non-termination of a disconnected diagram
            return "refused after %d" % t["steps"]
        except Exception as err:
            t["status"] = "dead"
            raise self.vio("exception", "%s raised %s: %s at step %d" % (
                t["kind"], type(err).__name__, err, t["steps"]))
        t["steps"] += 1
        self.note("trace_steps")
        self.check_step(t, got, t["m2seed"])
        if t["steps"] >= TRACE_CAP:
            t["status"] = "capped"
            t["gen"].close()
        return "step %d" % t["steps"]

    def check_step(self, t, got, m2seed):
        what = "%s step %d" % (t["kind"], t["steps"])
        gm = self.check_value(got, t["src_model"], what)
        prev = t["prev"]
        if t["kind"] == "normalize":
            legal = M.is_single_move(prev, gm)
            if legal:
                self.note("step_is_move")
            elif self.cfg["cls"] in ("rigid", "pro") and M.is_snake_deletion(prev, gm):
                legal = True
                self.note("step_is_yank")
            if not legal and self.prop == "C07" and boxes_preserved(prev, gm, True):
                # C07 does not ask that a step be a SINGLE move (that is C06's clause): a step that only
                # rearranges boxes and removes caps/cups pairwise is accepted here if it is well-typed
                # (checked above) and denotes the same morphism (checked below)
                legal = True
                self.note("step_compound_accepted")
            if not legal:
                raise self.vio("illegal-step", "%s is neither one legal interchange%s" % (
                    what, " nor the removal of one valid snake" if self.cfg["cls"] in ("rigid", "pro") else ""),
                    prev=list(prev[2]), got=list(gm[2]))
        else:   # foliate: bundles several moves; must stay in the class
            if not M.same_boxes(prev, gm):
                raise self.vio("illegal-step", "%s changed the boxes" % what)
        if gm in t["seen"]:
            t["cycle"] = True
            self.note("trace_repeated_diagram")
        else:
            self.denot_equal(t["src_model"], gm, m2seed, what)
        t["seen"].add(gm)
        t["prev"], t["last"] = gm, got
        self.states.add(h64(gm))
        # steps already handed out stay what they were while the generator moves on
        kept = t.setdefault("kept", [])
        for k, (old_real, old_model) in enumerate(kept):
            if M.model_of(old_real) != old_model or B.public_scan_problem(old_real):
                raise self.vio("step-changed-later", "a step yielded earlier by %s (%d steps before %s) is no "
                               "longer the diagram it was when it was yielded" % (t["kind"], len(kept) - k, what))
        kept.append((got, gm))
        if len(kept) > 6:
            del kept[2]          # keep the first two and the most recent ones
        self.note("kept_steps_rechecked", len(kept) - 1)

    def op_task_close(self, op):
        t = self.tasks.get(op["task"])
        if t is None or t["status"] != "live":
            return "skipped"
        t["gen"].close()
        t["status"] = "closed"
        self.note("F2_abandoned_midtrace" if t["steps"] else "F2_abandoned_fresh")
        self.check_slots()
        return "closed after %d" % t["steps"]

    def op_task_check_final(self, op):
        """A finished normaliser: its last diagram must be what normal_form returns."""
        t = self.tasks.get(op["task"])
        if t is None or t["status"] != "done" or t["kind"] != "normalize":
            return "skipped"
        if t["cycle"]:
            return "skipped-cycle"
        if self.prop != "C07" and not M.is_connected(t["src_model"]):
            return "skipped-disconnected"      # no relation is promised for disconnected diagrams
        outcome, nf = self._normal_form(t["real_src"], t["left"], NF_MIN_BUDGET * 10)
        if outcome != "value":
            raise self.vio("termination", "normalize() ended after %d steps but normal_form() gave %s"
                           % (t["steps"], outcome))
        if nf != t["last"] or M.model_of(nf) != t["prev"]:
            raise self.vio("final", "normal_form() differs from the last diagram yielded by a "
                           "normaliser that was stepped lazily and interleaved")
        self.note("lazy_final_equals_atomic")
        return "ok"

    # -- normal forms --------------------------------------------------------
    def _normal_form(self, real, left, budget, interrupt_at=None):
        try:
            mode, n = ("interrupt", interrupt_at) if interrupt_at else ("budget", budget)
            with LineTracer(lib_prefix(), mode, n):
                nf = real.normal_form(left=left)
            return "value", nf
        except NotImplementedError:
            self.lib_raised = True
            return "NotImplementedError", None
        except Interrupt:
            self.lib_raised = True
            return "interrupted", None
        except Budget:
            self.lib_raised = True
            return "budget", None
        except Exception as err:
            return "exception:%s:%s" % (type(err).__name__, str(err)[:120]), None

    def _own_trace(self, real, model, left, m2seed, cap=TRACE_CAP):
        """Drive a private normaliser with our own visited set.
        Returns (ended, repeated, last_real, last_model, lines)."""
        gen = real.normalize(left=left)
        seen, row = set(), 0
        t = {"kind": "normalize", "src_model": model, "prev": model, "seen": seen,
             "steps": 0, "left": left, "last": real, "cycle": False}
        with LineTracer(lib_prefix(), "count") as tr:
            while True:
                try:
                    got = next(gen)
                except StopIteration:
                    return True, t["cycle"], t["last"], t["prev"], tr.count
                except NotImplementedError as err:
                    if M.is_connected(model):
                        raise self.vio("termination", "normalize raised NotImplementedError on a connected "
                                       "diagram at step %d: %s" % (t["steps"], str(err)[:120]))
                    # "non-termination is reported as NotImplementedError": a normaliser that reports it
                    # itself, for a diagram that is not connected, is within the statement
                    self.note("normaliser_refused_disconnected")
                    return False, t["cycle"], t["last"], t["prev"], tr.count
                except Exception as err:
                    raise self.vio("exception", "normalize raised %s: %s at step %d" % (
                        type(err).__name__, err, t["steps"]))
                t["steps"] += 1
                n_seen = len(seen)
                self.check_step(t, got, m2seed)
                row = row + 1 if len(seen) == n_seen else 0
                if t["steps"] >= cap or row >= min(len(seen) + 3, 12):
                    gen.close()
                    return False, t["cycle"], t["last"], t["prev"], tr.count

    def op_normal_form(self, op):
        s = self.slots.get(op["src"])
        if s is None:
            return "skipped"
        real, model, left = s["real"], s["model"], op["left"]
        if op.get("interrupt_at"):
            outcome, _ = self._normal_form(real, left, 0, op["interrupt_at"])
            if outcome == "interrupted":
                self.note("F5_fired")
                self.check_slots()
                return "interrupted"
            self.note("F5_missed")
        connected = M.is_connected(model)
        if (model, left) in self.nf_done:
            # the same request again (another walker, or later in the session): the answer
            # must be the same - a cache or other state that survives a call would show here
            before = self.nf_done[(model, left)]
            outcome, nf = self._normal_form(real, left, 3 * self.nf_budget.get((model, left), NF_MIN_BUDGET * 10))
            again = M.model_of(nf) if outcome == "value" else outcome
            if outcome == "budget":
                self.note("nf_repeated_request_inconclusive")     # three times the first budget: no verdict
                return "inconclusive"
            if before is not None and again != before:
                raise self.vio("unstable", "normal_form of the same diagram gave %s the first time and %s "
                               "when asked again in the same session" % (
                                   "a value" if not isinstance(before, str) else before,
                                   "another value" if not isinstance(again, str) else again))
            self.note("nf_repeated_request_same_answer")
            return "same request as before"
        self.nf_done[(model, left)] = None
        ended, repeated, last, last_model, lines = self._own_trace(
            real, model, left, op.get("m2seed", 0), TRACE_CAP if connected else 120)
        outcome, nf = self._normal_form(real, left, max(NF_MIN_BUDGET, 30 * lines))
        self.nf_budget[(model, left)] = max(NF_MIN_BUDGET, 30 * lines)
        self.case("nf", model, left)
        self.note("nf_connected" if connected else "nf_disconnected")
        if outcome.startswith("exception"):
            raise self.vio("exception", "normal_form raised %s" % outcome[10:])
        if outcome == "budget":
            raise self.vio("termination", "normal_form did not return within %d line events although "
                           "the stepped trace took %d" % (max(NF_MIN_BUDGET, 30 * lines), lines))
        if connected:
            if not ended:
                raise self.vio("termination", "normalisation of a connected diagram %s" % (
                    "keeps revisiting diagrams" if repeated else "does not end within %d steps" % TRACE_CAP))
            if repeated:
                self.note("connected_trace_revisits_but_ends")
            if outcome == "NotImplementedError":
                raise self.vio("termination", "NotImplementedError on a connected diagram")
        if connected and ended and not repeated and outcome != "value":
            raise self.vio("termination", "the trace ends after finitely many distinct steps but "
                           "normal_form gave %s" % outcome)
        if not connected and ended and not repeated and outcome != "value":
            self.note("disconnected_trace_ends_but_normal_form_refuses")    # allowed by the statement
        if not ended and outcome == "value":
            self.note("nf_value_on_repeating_trace")   # soundness of the value is checked below
        if outcome == "NotImplementedError":
            self.note("nf_not_implemented")
            self.nf_done[(model, left)] = "NotImplementedError"
            if self.prop == "C07":
                self.note("nie_disconnected")
            return "NotImplementedError"
        nm = self.check_value(nf, model, "normal form")
        self.nf_done[(model, left)] = nm
        if ended and not repeated and (nf != last or nm != last_model):
            if connected or self.prop == "C07":
                # (C07: the trace is the snake removal itself; C06: canonical, so both must agree)
                raise self.vio("final", "normal_form differs from the last step of its own trace")
            self.note("disconnected_normal_form_differs_from_trace_end")
        if not boxes_preserved(model, nm, self.cfg["cls"] in ("rigid", "pro")):
            raise self.vio("boxes", "normal form has other boxes than its input%s" % (
                " minus cups and caps" if self.cfg["cls"] in ("rigid", "pro") else ""))
        self.denot_equal(model, nm, op.get("m2seed", 0), "normal form")
        # fixed point
        o2, nf2 = self._normal_form(nf, left, max(NF_MIN_BUDGET, 30 * lines))
        if o2 != "value" or nf2 != nf:
            raise self.vio("fixed-point", "normal_form(normal_form(d)) is %s" % (
                o2 if o2 != "value" else "another diagram"))
        try:
            first = next(iter(nf.normalize(left=left)), None)
        except Exception:
            first = None
        if first is not None:
            # not demanded by the statement (the fixed point is about normal_form); recorded only
            self.note("normaliser_on_normal_form_yields_a_step")
        if self.cfg["cls"] in ("rigid", "pro"):
            left_over = [x for x in M.snakes(nm) if x[3]]
            if left_over:
                raise self.vio("residual-snake", "normal form still contains a valid snake "
                               "(cap %d, cup %d)" % (left_over[0][0], left_over[0][1]))
            self.note("nf_snake_free")
        if op.get("dst"):
            self.store(op["dst"], nf, nm, s["lineage"])
        return "value"

    def op_canon(self, op):
        """Walkers of one lineage (reached by legal interchanges) have equal normal forms."""
        live = [self.slots[n] for n in op["slots"] if n in self.slots]
        if len(live) < 2:
            return "skipped"
        if len({s["lineage"] for s in live}) != 1:
            return "skipped"
        if not M.is_connected(live[0]["model"]):
            return "skipped-disconnected"
        left = op["left"]
        nfs = []
        for s in live:
            outcome, nf = self._normal_form(s["real"], left, NF_MIN_BUDGET * 10)
            if outcome != "value":
                raise self.vio("termination", "normal_form of a connected walker gave %s" % outcome)
            nfs.append(nf)
        for nf in nfs[1:]:
            if nf != nfs[0]:
                if self.prop == "C07":
                    continue
                raise self.vio("canonicity", "two diagrams related by legal interchanges have "
                               "different %s normal forms" % ("left" if left else "right"))
        self.note("canon_walkers", len(live))
        return "ok %d" % len(live)

    def op_class_check(self, op):
        """Enumerate the interchanger class with M1 and normalise members."""
        s = self.slots.get(op["src"])
        if s is None:
            return "skipped"
        real, model = s["real"], s["model"]
        members, complete = M.eq_class(model, op["cap"])
        order = sorted(members)
        connected = M.is_connected(model)
        self.note("classes_complete" if complete else "classes_capped")
        if len(order) >= 2:
            self.case("class", order[0])
            self.note("classes_size_ge2")
        self.counters["class_max"] = max(self.counters["class_max"], len(order))
        picks = sorted({k % len(order) for k in op["picks"]}) if op.get("picks") is not None \
            else range(len(order))
        for left in op["lefts"]:
            ref = None
            for k in picks:
                mem = order[k]
                d = B.rebuild(real, mem)
                if M.model_of(d) != mem:
                    raise HarnessError("rebuild mismatch")
                outcome, nf = self._normal_form(d, left, NF_MIN_BUDGET * 10)
                self.note("members_normalised")
                if outcome == "NotImplementedError":
                    if connected:
                        raise self.vio("termination", "NotImplementedError on a member of a connected class")
                    continue
                if outcome != "value":
                    raise self.vio("termination" if outcome == "budget" else "exception",
                                   "normal_form of a class member gave %s" % outcome)
                nm = self.check_value(nf, model, "normal form of a class member")
                if complete and nm not in members:
                    raise self.vio("not-in-class", "normal form is not reachable from its input "
                                   "by interchanges (class of %d fully enumerated)" % len(order))
                if not complete and not M.same_boxes(nm, model):
                    raise self.vio("boxes", "normal form has other boxes than its input")
                if connected:
                    if ref is None:
                        ref = nf
                    elif nf != ref:
                        raise self.vio("canonicity", "members %d and %d of one interchanger class "
                                       "(%d members) have different %s normal forms" % (
                                           picks[0] if not isinstance(picks, range) else 0, k,
                                           len(order), "left" if left else "right"))
        return "class of %d%s" % (len(order), "" if complete else "+")

    def op_foliation(self, op):
        s = self.slots.get(op["src"])
        if s is None:
            return "skipped"
        real, model = s["real"], s["model"]
        members, complete = M.eq_class(model, op.get("cap", 800))
        try:
            fol = real.foliation()
            flat = fol.flatten()
        except Exception as err:
            raise self.vio("exception", "foliation/flatten raised %s: %s" % (type(err).__name__, err))
        B.require_well_typed(fol, "%s.ill-typed" % self.prop, "foliation")
        fm = self.check_value(flat, model, "foliation().flatten()")
        if not M.same_boxes(fm, model):
            raise self.vio("boxes", "flattened foliation has other boxes")
        if complete and fm not in members:
            raise self.vio("not-in-class", "foliation().flatten() left the interchanger class")
        self.denot_equal(model, fm, op.get("m2seed", 0), "foliation().flatten()")
        for k, sl in enumerate(fol.boxes):
            B.require_well_typed(sl, "%s.ill-typed" % self.prop, "slice %d" % k)
        self.note("foliations")
        self.case("foliation", model)
        return "ok depth %d" % len(fol)


def boxes_preserved(src, nf, rigid):
    """Same multiset of boxes; for rigid normal forms, the input's boxes minus
    equally many caps and cups."""
    a, b = sorted(x[0] for x in src[1]), sorted(x[0] for x in nf[1])
    if not rigid:
        return a == b
    import collections
    ca, cb = collections.Counter(a), collections.Counter(b)
    if cb - ca:
        return False
    gone = ca - cb
    kinds = {x[0]: x[4] for x in src[1]}
    caps = sum(n for i, n in gone.items() if kinds[i] == "cap")
    cups = sum(n for i, n in gone.items() if kinds[i] == "cup")
    return caps + cups == sum(gone.values()) and caps == cups


def move_options(m, i, j):
    """All diagrams obtained by moving box i to position j through adjacent
    exchanges, each on either legal side.  'IndexError' if out of range."""
    n = len(m[1])
    if isinstance(i, bool) or isinstance(j, bool) or not (0 <= i < n and 0 <= j < n):
        return "IndexError"
    if i == j:
        return {m}
    step, k, frontier = (1 if j > i else -1), i, {m}
    while k != j and frontier:
        nxt = set()
        for cur in frontier:
            nxt.update(M.adjacent_options(cur, min(k, k + step)))
        frontier, k = nxt, k + step
    return frontier


def probe_shapes(world, model, i, j):
    """'this rare condition was hit' probes for C05."""
    boxes = model[1]
    b = boxes[i]
    if not b[2] and not b[3]:
        world.note("probe_moved_scalar")
    elif not b[2]:
        world.note("probe_moved_state")
    elif not b[3]:
        world.note("probe_moved_effect")
    if abs(i - j) > 1:
        world.note("probe_multi_step_move")
    if len({x[0] for x in boxes}) < len(boxes):
        world.note("probe_equal_boxes_present")


# ---------------------------------------------------------------------------
# driver (generates explicit ops from the PRNG streams)
# ---------------------------------------------------------------------------

class Driver:
    def __init__(self, prop, cfg, streams):
        self.prop, self.cfg, self.s = prop, cfg, streams
        self.nslots = 0
        self.ntasks = 0
        self.checked = set()
        self.started = False

    def fresh_slot(self):
        self.nslots += 1
        return "v%d" % (self.nslots - 1)

    def spec(self):
        cfg, rng = self.cfg, self.s["gen"]
        cls = cfg["cls"]
        if cls in ("rigid", "pro") and self.prop == "C07":
            atoms = ("a", "b")[:cfg["atoms"]]
            return B.gen_rigid(rng, cfg["nsteps"], atoms, cfg["maxw"], cfg["zs"], cfg["p_template"],
                               selfdual=(cls == "pro"))
        if cls == "rigid" and self.prop == "C05" and rng.random() < 0.5:
            return B.gen_rigid(rng, max(1, cfg["nboxes"]), ("a", "b")[:max(1, min(2, cfg["atoms"]))],
                               cfg["maxw"], (0, 0, 1, -1, 2), 0.4)
        names = ("x", "y", "z")[:cfg["atoms"]]
        real_cls = {"rigid_plain": "rigid"}.get(cls, cls)
        if real_cls == "tensor":
            names = ("2", "3")[:max(1, min(2, cfg["atoms"]))]
        elif real_cls == "circuit":
            names = ("qubit", "bit")[:max(1, min(2, cfg["atoms"]))]
        elif real_cls in ("zx", "cartesian"):
            names = ("1",)
        nboxes = cfg["nboxes"]
        spec = B.gen_monoidal(rng, nboxes, real_cls, names, cfg["maxw"],
                              cfg["p_connected"], cfg["p_degenerate"], cfg["p_samename"])
        if real_cls in ("monoidal", "rigid") and self.prop == "C05" and spec["boxes"] \
                and rng.random() < 0.2:
            spec = B.with_diagram_boxes(rng, spec)
        return spec

    def m2seed(self):
        return self.s["gen"].getrandbits(32)

    def interrupt_at(self, scale=3000):
        r = self.s["fault"]
        return max(1, int(scale ** r.random()))

    def next_op(self, world):
        op = self._next_op(world)
        self.last_op = op
        return op

    def _next_op(self, world):
        sched, gen, fault = self.s["sched"], self.s["gen"], self.s["fault"]
        cfg = self.cfg
        if not self.started:
            self.started = True
            self.pending = [{"op": "new", "slot": self.fresh_slot(), "spec": self.spec()}
                            for _ in range(cfg.get("walkers", 1) if self.prop == "C05" else 1)]
            if self.prop == "C07" and gen.random() < 0.35:
                rng = self.s["gen"]
                base = B.gen_monoidal(rng, rng.randint(1, 3), cfg["cls"],
                                      ("1",) if cfg["cls"] == "pro" else ("a", "b")[:cfg["atoms"]], 2,
                                      0.8, 0.2, 0.2)
                recipe = [rng.choice(["transpose_l", "transpose_r", "transpose_l", "transpose_r", "dagger",
                                      "cup_close", "cap_open"]) for _ in range(rng.randint(1, 3))]
                self.pending[0] = {"op": "new", "slot": "v0", "spec": base, "recipe": recipe}
            if self.prop != "C05":
                for _ in range(cfg.get("walkers", 1) - 1):
                    self.pending.append({"op": "fork", "src": "v0", "dst": self.fresh_slot()})
        if self.pending:
            return self.pending.pop(0)
        fired = world.counters.get("F5_fired", 0)
        if fired != getattr(self, "last_f5", 0):
            # an operation has just been interrupted: the same request is made again at once (what
            # the interrupted call left behind must not change its answer), then work goes on
            self.last_f5 = fired
            last = getattr(self, "last_op", None)
            if last and last.get("op") in ("normal_form", "interchange"):
                again = {k: v for k, v in last.items() if k != "interrupt_at"}
                self.last_op = again
                return again
        names = sorted(world.slots)
        if not names:
            return None
        if self.prop == "C05":
            return self.next_c05(world, names)
        if self.prop == "C06":
            return self.next_c06(world, names)
        return self.next_c07(world, names)

    # -- C05 -----------------------------------------------------------------
    def pick_move(self, world, name, p_illegal):
        sched = self.s["sched"]
        model = world.slots[name]["model"]
        n = len(model[1])
        left = sched.random() < 0.5
        if sched.random() < p_illegal or n == 0:
            return sched.randint(-2, n + 1), sched.randint(-2, n + 1), left
        if sched.random() < 0.6:
            cands = [k for k in range(n - 1) if M.adjacent_options(model, k)]
            if cands:
                k = sched.choice(cands)
                i, j = (k, k + 1) if sched.random() < 0.5 else (k + 1, k)
                if sched.random() < 0.4:          # stretch to a multi-step move while legal
                    step = 1 if j > i else -1
                    while 0 <= j + step < n and sched.random() < 0.6 \
                            and M.move_analysis(model, i, j + step)[0]:
                        j += step
                return i, j, left
        i = sched.randrange(n)
        j = sched.randrange(n) if sched.random() < 0.5 else max(0, min(n - 1, i + sched.choice([-1, 1])))
        return i, j, left

    def next_c05(self, world, names):
        sched, fault, cfg = self.s["sched"], self.s["fault"], self.cfg
        src = sched.choice(names)
        r = sched.random()
        if r < cfg["p_scribble"]:
            return {"op": "scribble", "src": src, "what": sched.choice(["boxes", "offsets", "dom"])}
        if r < cfg["p_scribble"] + cfg["p_dagger"]:
            return {"op": "dagger", "src": src, "dst": src}
        i, j, left = self.pick_move(world, src, cfg["p_illegal"])
        op = {"op": "interchange", "src": src, "i": i, "j": j, "left": left,
              "m2seed": self.m2seed(),
              "dst": src if sched.random() < 0.7 else (
                  sched.choice(names) if sched.random() < 0.5 or len(names) > 4 else self.fresh_slot())}
        if fault.random() < cfg["p_interrupt"]:
            op["interrupt_at"] = self.interrupt_at(400)
        return op

    # -- C06 -----------------------------------------------------------------
    def new_task(self):
        self.ntasks += 1
        return "t%d" % (self.ntasks - 1)

    def legal_move(self, world, name):
        """a random legal interchange on slot `name`, or None"""
        sched = self.s["sched"]
        model = world.slots[name]["model"]
        n = len(model[1])
        cands = []
        for k in range(n - 1):
            if M.adjacent_options(model, k):
                cands.append(k)
        if not cands:
            return None
        k = sched.choice(cands)
        i, j = (k, k + 1) if sched.random() < 0.5 else (k + 1, k)
        if sched.random() < 0.3:      # try a longer move
            j2 = sched.randrange(n)
            if move_options(model, i, j2):
                j = j2
        return {"op": "interchange", "src": name, "dst": name, "i": i, "j": j,
                "left": sched.random() < 0.5, "m2seed": self.m2seed()}

    def next_c06(self, world, names):
        sched, fault, cfg = self.s["sched"], self.s["fault"], self.cfg
        live = sorted(t for t, v in world.tasks.items() if v["status"] == "live")
        done = sorted(t for t, v in world.tasks.items()
                      if v["status"] == "done" and t not in self.checked)
        src = sched.choice(names)
        r = sched.random()
        if done and r < 0.5:
            self.checked.add(done[0])
            return {"op": "task_check_final", "task": done[0]}
        if live and r < 0.45:
            t = sched.choice(live)
            if fault.random() < cfg["p_abandon"] * 0.3:
                return {"op": "task_close", "task": t}
            op = {"op": "task_next", "task": t}
            if fault.random() < cfg["p_interrupt"] * 0.3:
                op["interrupt_at"] = self.interrupt_at(300)
            return op
        if r < 0.55:
            mv = self.legal_move(world, src)
            if mv:
                return mv
        if r < 0.68 and len(live) < 3:
            kind = "normalize" if sched.random() < 0.75 else "foliate"
            return {"op": "task_start", "task": self.new_task(), "src": src, "kind": kind,
                    "left": sched.random() < 0.5, "m2seed": self.m2seed()}
        if r < 0.80:
            op = {"op": "normal_form", "src": src, "left": sched.random() < 0.5,
                  "m2seed": self.m2seed()}
            if sched.random() < 0.2:
                op["dst"] = src if sched.random() < 0.5 else self.fresh_slot()
            if fault.random() < 2 * cfg["p_interrupt"]:
                # (state left behind by an interrupted normalisation shows only when the interruption
                # lands inside the loop of a diagram that needs a move, and the request is then repeated)
                # between 100 and 20 000 line events, log-uniform: early enough to land inside short
                # normalisations, late enough to land after the first steps of longer ones
                op["interrupt_at"] = 100 * self.interrupt_at(200)
            return op
        if r < 0.805:
            cls = sched.choice(["monoidal", "monoidal", "rigid"])      # rigid costs four times as much
            return {"op": "long_trace", "n": sched.choice([5, 7, 9, 10] if cls == "monoidal" else [5, 7]),
                    "left": sched.random() < 0.5, "dagger": sched.random() < 0.3, "cls": cls}
        if r < 0.82:
            return {"op": "subs", "src": src, "dst": src if sched.random() < 0.5 else self.fresh_slot(),
                    "value": sched.choice([0, 1, 2])}
        if r < 0.83:
            return {"op": "dagger", "src": src, "dst": self.fresh_slot()}      # a new lineage
        if r < 0.86 and len(names) >= 2:
            return {"op": "canon", "slots": names[:6], "left": sched.random() < 0.5}
        if r < 0.93:
            return {"op": "foliation", "src": src, "m2seed": self.m2seed(), "cap": 800}
        n_members = cfg["members_per_check"]
        picks = [sched.getrandbits(30) for _ in range(n_members)]
        return {"op": "class_check", "src": src, "cap": cfg["class_cap"], "picks": picks,
                "lefts": [False, True] if sched.random() < 0.5 else [sched.random() < 0.5]}

    # -- C07 -----------------------------------------------------------------
    def next_c07(self, world, names):
        sched, fault, cfg = self.s["sched"], self.s["fault"], self.cfg
        live = sorted(t for t, v in world.tasks.items() if v["status"] == "live")
        done = sorted(t for t, v in world.tasks.items()
                      if v["status"] == "done" and t not in self.checked)
        src = sched.choice(names)
        r = sched.random()
        if done and r < 0.5:
            self.checked.add(done[0])
            return {"op": "task_check_final", "task": done[0]}
        if live and r < 0.55:
            t = sched.choice(live)
            if fault.random() < cfg["p_abandon"] * 0.3:
                return {"op": "task_close", "task": t}
            op = {"op": "task_next", "task": t}
            if fault.random() < cfg["p_interrupt"] * 0.3:
                op["interrupt_at"] = self.interrupt_at(600)
            return op
        if r < 0.65:
            mv = self.legal_move(world, src)
            if mv:
                return mv
        if r < 0.70:
            return {"op": "normal_form_custom", "src": src, "left": sched.random() < 0.5,
                    "m2seed": self.m2seed()}
        if r < 0.80 and len(live) < 3:
            return {"op": "task_start", "task": self.new_task(), "src": src, "kind": "normalize",
                    "left": sched.random() < 0.5, "m2seed": self.m2seed()}
        if r < 0.95:
            op = {"op": "normal_form", "src": src, "left": sched.random() < 0.5,
                  "m2seed": self.m2seed()}
            if sched.random() < 0.3:
                op["dst"] = self.fresh_slot()
            if fault.random() < cfg["p_interrupt"]:
                op["interrupt_at"] = self.interrupt_at(5000)
            return op
        return {"op": "scribble", "src": src, "what": sched.choice(["boxes", "offsets", "dom"])}


def shrink_op(op):
    if op.get("op") == "new":
        for spec in B.shrink_spec(op["spec"]):
            cand = dict(op)
            cand["spec"] = spec
            yield cand
    if "interrupt_at" in op:
        cand = dict(op)
        del cand["interrupt_at"]
        yield cand
    if op.get("op") == "class_check" and op.get("picks") and len(op["picks"]) > 2:
        cand = dict(op)
        cand["picks"] = op["picks"][:len(op["picks"]) // 2]
        yield cand
