"""Engine B: backend peer simulator (C13).  DESIGN.md 5.5.

discopy clients export circuits, submit them (singly, in batches, as sums) to
SimBackend - a discrete-event job queue with out-of-order completion, varying
result representation (F4) and injected failures (F4') - and read results.
Oracles: M3 on the exported circuit vs the circuit's own mixed evaluation;
backend results vs local evaluation for every member of a batch; round trip;
import of peer-generated tket circuits vs M3."""
import json

import numpy as np

from sim import world as W
from sim import tksim
from sim.core import World as BaseWorld, Violation, HarnessError, LineTracer, Interrupt, h64

NAME = "backend"
ATOL = 1e-9


def lib_prefix():
    import os
    return os.path.join(os.path.realpath(W.REPO), "discopy") + os.sep

CORE_KINDS = ["ket", "ket", "g1", "g1", "rot", "g2", "g2", "crz", "swapq", "measure",
              "measure_nd", "discard", "bra", "scalar", "cgate_named"]
FRINGE_KINDS = ["bits0", "swapb", "swapm", "discardb", "cgate1", "cgate2", "measure_ob"]

PHASES = [0.25, 0.5, 0.3, -0.7, 1.1, 0.125, -1.25, 2.0, 0.0, 1.0]
SCALARS = [["scalar", 0.5, 0.0], ["scalar", 0.0, 1.0], ["sqrt", 2.0], ["mixed", 0.5],
           ["scalar", 1.0, 1.0], ["mixed", 3.0], ["scalar", 2.0, 0.0], ["sqrt", 0.5],
           ["scalar", -1.0, 0.0], ["mixed", -1.0], ["mixed", -0.5]]


def make_config(prop, rng, tier):
    fringe = rng.random() < 0.3
    kinds = sorted(set(k for k in CORE_KINDS if rng.random() < 0.8) | {"ket", "g1"})
    if fringe:
        kinds = sorted(set(kinds) | set(k for k in FRINGE_KINDS if rng.random() < 0.6))
    return {
        "prop": prop, "tier": tier, "max_steps": rng.choice([8, 14, 20]),
        "kinds": kinds, "fringe": fringe,
        "max_boxes": rng.choice([5, 8, 10] if fringe else [3, 5, 8, 10]), "max_wires": rng.choice([3, 4, 5]),
        "p_fail": rng.choice([0.0, 0.0, 0.15, 0.3]),
        "p_import": rng.choice([0.1, 0.25, 0.5]),
        "batch_max": rng.choice([1, 2, 3]),
        "p_inputs": rng.choice([0.0, 0.2, 0.5]),
        "p_interrupt": rng.choice([0.0, 0.0, 0.1, 0.25]),
        "p_dance": rng.choice([0.0, 0.3, 0.6]) if fringe else rng.choice([0.0, 0.2, 0.4]),
        **({"max_boxes": rng.choice([10, 12, 14]), "max_steps": 30, "batch_max": 4}
           if tier == "thorough" and rng.random() < 0.3 else {}),
    }


# ---------------------------------------------------------------------------
# circuits from explicit specs
# ---------------------------------------------------------------------------

def _gate(item):
    from discopy.quantum import gates as G
    from discopy.quantum import circuit as C
    g = item["g"]
    if g in ("H", "S", "T", "X", "Y", "Z", "CX", "CZ"):
        return getattr(G, g)
    if g == "SWAP":
        return G.SWAP
    if g in ("CY", "CH", "CS", "CT"):
        return G.Controlled(getattr(G, g[1]))
    if g in ("Rx", "Rz", "CRz"):
        return getattr(G, g)(item["phase"])
    if g == "Ket":
        return G.Ket(*item["bits"])
    if g == "Bra":
        return G.Bra(*item["bits"])
    if g == "Bits":
        return G.Bits(*item["bits"])
    if g == "Measure":
        return C.Measure(item.get("n", 1), destructive=item.get("destructive", True),
                         override_bits=item.get("override_bits", False))
    if g == "Discard":
        return C.Discard(C.bit if item.get("bit") else 1)
    if g == "scalar":
        s = item["s"]
        if s[0] == "scalar":
            return G.scalar(complex(s[1], s[2]) if s[2] else s[1])
        if s[0] == "sqrt":
            return G.sqrt(s[1])
        return G.MixedScalar(s[1])
    if g == "swapb":
        return C.Swap(C.bit, C.bit)
    if g == "swapm":
        return C.Swap(C.qubit, C.bit) if item["qb"] else C.Swap(C.bit, C.qubit)
    if g == "not":
        return G.ClassicalGate("not", 1, 1, [0, 1, 1, 0])
    if g == "rnd":
        return G.ClassicalGate("rnd", 1, 1, [.5, .5, .25, .75])
    if g == "copy":
        return G.Copy()
    if g == "xor":
        return G.ClassicalGate("xor", 2, 1, [1, 0, 0, 1, 0, 1, 1, 0])
    if g == "lut":
        # a big classical lookup table: a permutation of the 2**n bit strings that fixes 0...0 and 1...1
        import random as _random
        n = item["n"]
        perm = list(range(1, 2 ** n - 1))
        _random.Random(item["k"]).shuffle(perm)
        perm = [0] + perm + [2 ** n - 1]
        table = np.zeros((2 ** n, 2 ** n))
        for i, j in enumerate(perm):
            table[i, j] = 1
        return G.ClassicalGate("lut", n, n, table.flatten())
    if g == "cnot":
        return G.ClassicalGate("cnot", 2, 2, [1, 0, 0, 0, 0, 1, 0, 0, 0, 0, 0, 1, 0, 0, 1, 0])
    raise HarnessError("unknown gate %r" % g)


def build_circuit(spec):
    """Place the boxes of a spec one by one; an item that no longer fits
    (after shrinking) is skipped."""
    from discopy.quantum.circuit import Id, Ty, qubit, bit
    c = Id(0)
    for item in spec:
        if item["g"] == "dom":        # input wires: the circuit starts on a non-empty domain
            if len(c) == 0 and not c.dom:
                ty = Ty()
                for w in item["wires"]:
                    ty = ty @ (qubit if w == "q" else bit)
                c = Id(ty)
            continue
        box = _gate(item)
        at, cod = item["at"], c.cod
        n = len(box.dom)
        if at < 0 or at + n > len(cod) or cod[at:at + n] != box.dom:
            continue
        c = c >> Id(cod[:at]) @ box @ Id(cod[at + n:])
    return c


def gen_register_dance(rng, cfg):
    """A circuit that does little else than move registers around: preparations, post-selections,
    measurements, discards and swaps at random positions, with X gates to tell outcomes apart.
    The classical events (bits prepared, bits discarded or swapped) only in fringe runs."""
    max_w, fringe = cfg["max_wires"], cfg.get("fringe")
    wires, spec = [], []

    def put(item, new=None, at=None, n=0):
        spec.append(item)
        if new is not None:
            wires[at:at + n] = new
    for step in range(rng.randint(3, 8)):
        qpos = [i for i, w in enumerate(wires) if w == "q"]
        bpos = [i for i, w in enumerate(wires) if w == "b"]
        adjq = [i for i in range(len(wires) - 1) if wires[i] == wires[i + 1] == "q"]
        adjb = [i for i in range(len(wires) - 1) if wires[i] == wires[i + 1] == "b"]
        events = []
        if len(wires) < max_w:
            events += ["ket", "ket"] + (["bits"] * 2 if fringe else [])
            if fringe and any(it["g"] == "Bra" for it in spec):
                events += ["bits"] * 3      # bits prepared while post-selected tket bits exist
        if qpos:
            events += ["bra", "measure", "x", "discard"] + (["measure_nd"] if len(wires) < max_w else [])
        if adjq:
            events += ["swapq", "bra2", "measure2"]
        if fringe and bpos:
            events += ["discardb"]
        if fringe and adjb:
            events += ["swapb"]
        if not events:
            break
        e = rng.choice(events)
        if e == "ket":
            n, at = rng.randint(1, min(2, max_w - len(wires))), rng.randint(0, len(wires))
            put({"g": "Ket", "bits": [rng.randint(0, 1) for _ in range(n)], "at": at}, ["q"] * n, at, 0)
        elif e == "bits":
            n = rng.randint(1, min(2, max_w - len(wires)))
            at = 0 if rng.random() < 0.4 else rng.randint(0, len(wires))
            put({"g": "Bits", "bits": [0] * n, "at": at}, ["b"] * n, at, 0)
        elif e == "x":
            put({"g": "X", "at": rng.choice(qpos)})
        elif e == "bra":
            at = rng.choice(qpos)
            put({"g": "Bra", "bits": [rng.randint(0, 1)], "at": at}, [], at, 1)
        elif e == "bra2":
            at = rng.choice(adjq)
            put({"g": "Bra", "bits": [rng.randint(0, 1), rng.randint(0, 1)], "at": at}, [], at, 2)
        elif e == "measure":
            at = rng.choice(qpos)
            put({"g": "Measure", "at": at}, ["b"], at, 1)
        elif e == "measure2":
            at = rng.choice(adjq)
            put({"g": "Measure", "n": 2, "at": at}, ["b", "b"], at, 2)
        elif e == "measure_nd":
            at = rng.choice(qpos)
            put({"g": "Measure", "destructive": False, "at": at}, ["q", "b"], at, 1)
        elif e == "discard":
            at = rng.choice(qpos)
            put({"g": "Discard", "at": at}, [], at, 1)
        elif e == "discardb":
            at = rng.choice(bpos)
            put({"g": "Discard", "bit": True, "at": at}, [], at, 1)
        elif e == "swapq":
            put({"g": "SWAP", "at": rng.choice(adjq)})
        elif e == "swapb":
            put({"g": "swapb", "at": rng.choice(adjb)})
    return spec


def gen_circuit_spec(rng, cfg):
    """A random circuit spec; tracks wire kinds ('q'/'b') itself."""
    if rng.random() < cfg.get("p_dance", 0.0):
        return gen_register_dance(rng, cfg)
    kinds, max_w = cfg["kinds"], cfg["max_wires"]
    wires, spec = [], []
    if cfg.get("fringe") and max_w >= 5 and rng.random() < 0.25:
        # five classical bits through a 1024-entry lookup table (siblings differ in the table only)
        spec = [{"g": "Bits", "bits": [0] * 5, "at": 0}]
        spec += [{"g": "not", "at": rng.randrange(5)} for _ in range(rng.randint(0, 3))]
        spec.append({"g": "lut", "n": 5, "k": rng.randint(0, 3), "at": 0})
        return spec
    if rng.random() < cfg.get("p_inputs", 0.0):
        wires = [rng.choice("qqb") if "bits0" in kinds else "q" for _ in range(rng.randint(1, min(2, max_w)))]
        spec.append({"g": "dom", "wires": list(wires)})
    for _ in range(rng.randint(1, cfg["max_boxes"])):
        qpos = [i for i, w in enumerate(wires) if w == "q"]
        bpos = [i for i, w in enumerate(wires) if w == "b"]
        adjq = [i for i in range(len(wires) - 1) if wires[i] == wires[i + 1] == "q"]
        adjb = [i for i in range(len(wires) - 1) if wires[i] == wires[i + 1] == "b"]
        adjm = [i for i in range(len(wires) - 1) if wires[i] != wires[i + 1]]
        qb = [i for i in range(len(wires) - 1) if wires[i] == "q" and wires[i + 1] == "b"]
        ok = []
        for k in kinds:
            if k == "ket" and len(wires) < max_w:
                ok.append(k)
            elif k == "bits0" and len(wires) < max_w:
                ok.append(k)
                if bpos:
                    ok.append(k)
            elif k in ("g1", "rot", "measure", "discard", "bra") and qpos:
                ok.append(k)
            elif k == "measure_nd" and qpos and len(wires) < max_w:
                ok.append(k)
            elif k in ("g2", "crz", "swapq", "cgate_named") and adjq:
                ok.append(k)
            elif k in ("swapb", "cgate2") and adjb:
                ok.append(k)
            elif k in ("discardb", "cgate1") and bpos:
                ok.append(k)
            elif k == "swapm" and adjm:
                ok.append(k)
            elif k == "measure_ob" and qb:
                ok.append(k)
            elif k == "scalar":
                ok.append(k)
        if not ok:
            ok = ["ket"] if len(wires) < max_w else ["scalar"]
        # preparations in the middle of a circuit and swaps are what moves registers around
        ok += [x for x in ok if x in ("ket", "swapq", "swapq")] + (["swapq"] if "swapq" in ok else [])
        k = rng.choice(ok)
        if k == "ket":
            n = rng.randint(1, min(2, max_w - len(wires)))
            at = rng.randint(0, len(wires))
            spec.append({"g": "Ket", "bits": [rng.randint(0, 1) for _ in range(n)], "at": at})
            wires[at:at] = ["q"] * n
        elif k == "bits0":
            at = rng.randint(0, len(wires))
            n = 2 if len(wires) + 2 <= max_w and rng.random() < 0.25 else 1
            spec.append({"g": "Bits", "bits": [0] * n, "at": at})
            wires[at:at] = ["b"] * n
        elif k == "g1":
            spec.append({"g": rng.choice(["H", "S", "T", "X", "Y", "Z"]), "at": rng.choice(qpos)})
        elif k == "rot":
            g, at, phase = rng.choice(["Rx", "Rz"]), rng.choice(qpos), rng.choice(PHASES)
            if g == "Rz" and rng.random() < 0.6:      # a phase only shows between basis changes
                spec += [{"g": "H", "at": at}, {"g": g, "phase": phase, "at": at}, {"g": "H", "at": at}]
            else:
                spec.append({"g": g, "phase": phase, "at": at})
        elif k == "g2":
            spec.append({"g": rng.choice(["CX", "CZ"]), "at": rng.choice(adjq)})
        elif k == "cgate_named":
            g, at = rng.choice(["CY", "CH", "CY", "CH", "CS", "CT"]), rng.choice(adjq)      # CT: no tket name, refused
            if rng.random() < 0.5:      # a sign on the controlled gate is a phase on its control
                spec += [{"g": "H", "at": at}, {"g": g, "at": at}, {"g": "H", "at": at}]
            else:
                spec.append({"g": g, "at": at})
        elif k == "crz":
            at, phase = rng.choice(adjq), rng.choice(PHASES)
            if rng.random() < 0.6:
                spec += [{"g": "H", "at": at}, {"g": "H", "at": at + 1}, {"g": "CRz", "phase": phase, "at": at},
                         {"g": "H", "at": at}, {"g": "H", "at": at + 1}]
            else:
                spec.append({"g": "CRz", "phase": phase, "at": at})
        elif k == "swapq":
            spec.append({"g": "SWAP", "at": rng.choice(adjq)})
        elif k == "measure":
            if adjq and rng.random() < 0.25:        # Measure(2)
                at = rng.choice(adjq)
                spec.append({"g": "Measure", "n": 2, "at": at})
                wires[at:at + 2] = ["b", "b"]
            else:
                at = rng.choice(qpos)
                spec.append({"g": "Measure", "at": at})
                wires[at] = "b"
        elif k == "measure_nd":
            at = rng.choice(qpos)
            spec.append({"g": "Measure", "destructive": False, "at": at})
            wires[at + 1:at + 1] = ["b"]
        elif k == "measure_ob":
            at = rng.choice(qb)
            d = rng.random() < 0.5
            spec.append({"g": "Measure", "destructive": d, "override_bits": True, "at": at})
            if d:
                wires[at:at + 2] = ["b"]
        elif k == "discard":
            at = rng.choice(qpos)
            spec.append({"g": "Discard", "at": at})
            del wires[at]
        elif k == "discardb":
            at = rng.choice(bpos)
            spec.append({"g": "Discard", "bit": True, "at": at})
            del wires[at]
        elif k == "bra":
            if adjq and rng.random() < 0.35:        # a two-qubit effect: two post-selected bits
                at = rng.choice(adjq)
                spec.append({"g": "Bra", "bits": [rng.randint(0, 1), rng.randint(0, 1)], "at": at})
                del wires[at:at + 2]
            else:
                at = rng.choice(qpos)
                spec.append({"g": "Bra", "bits": [rng.randint(0, 1)], "at": at})
                del wires[at]
        elif k == "scalar":
            spec.append({"g": "scalar", "s": rng.choice(SCALARS), "at": rng.randint(0, len(wires))})
        elif k == "swapb":
            spec.append({"g": "swapb", "at": rng.choice(adjb)})
        elif k == "swapm":
            at = rng.choice(adjm)
            spec.append({"g": "swapm", "qb": wires[at] == "q", "at": at})
            wires[at], wires[at + 1] = wires[at + 1], wires[at]
        elif k == "cgate1":
            g = rng.choice(["not", "rnd", "copy"])
            at = rng.choice(bpos)
            if g == "copy" and len(wires) >= max_w:
                g = "not"
            spec.append({"g": g, "at": at})
            if g == "copy":
                wires[at:at] = ["b"]
        elif k == "cgate2":
            g = rng.choice(["xor", "cnot"])
            at = rng.choice(adjb)
            spec.append({"g": g, "at": at})
            if g == "xor":
                del wires[at]
    return spec


def variant_spec(rng, spec):
    spec = [dict(item) for item in spec]
    idx = [k for k, it in enumerate(spec) if it["g"] in ("scalar", "Rx", "Rz", "CRz", "Ket", "lut")]
    if not idx:
        return spec + [{"g": "scalar", "s": rng.choice(SCALARS), "at": 0}]
    k = rng.choice(idx)
    it = spec[k]
    if it["g"] == "scalar":
        s = it["s"]
        if s[0] == "scalar" and not s[2]:
            it["s"] = ["mixed", s[1]]            # same number, the Born rule already applied
        elif s[0] == "mixed":
            it["s"] = ["scalar", s[1], 0.0]
        else:
            it["s"] = rng.choice(SCALARS)
    elif it["g"] == "Ket":
        it["bits"] = [1 - it["bits"][0]] + list(it["bits"][1:])
    elif it["g"] == "lut":
        it["k"] = it["k"] + 1
    else:
        it["phase"] = rng.choice([p for p in PHASES if p != it["phase"]])
    return spec


def n_out_bits(c):
    return len(c.init_and_discard().cod)


def local_mixed(c):
    """The circuit's own mixed evaluation as an array over its output bits."""
    ev = c.init_and_discard().eval(mixed=True)
    return np.asarray(ev.array, dtype=complex)


def as_dist(counts, n):
    a = np.zeros((2,) * n if n else (1,), dtype=complex)
    for k, v in counts.items():
        if len(k) != n:
            raise Violation("C13.counts-shape", "backend counts key %r has %d bits, circuit has %d output bits"
                            % (tuple(int(b) for b in k), len(k), n))
        a[tuple(int(b) for b in k) if n else (0,)] += complex(np.asarray(v).reshape(-1)[0])
    return a


def close(a, b):
    a, b = np.asarray(a), np.asarray(b)
    return a.shape == b.shape and np.allclose(a, b, atol=ATOL, rtol=0)


# ---------------------------------------------------------------------------
# world
# ---------------------------------------------------------------------------

class World(BaseWorld):
    def __init__(self, prop, cfg):
        super().__init__(prop, cfg)
        W.load()
        W.MON.fired.clear()
        W.MON.raise_on_fire = False
        self.slots = {}
        self.sim_time = 0.0
        self.result_cache = {}
        prepare()

    def vio(self, what, msg, **details):
        return Violation("%s.%s" % (self.prop, what), msg, details)

    def apply(self, op):
        fn = getattr(self, "op_" + op["op"], None)
        if fn is None:
            raise HarnessError("unknown op %r" % op["op"])
        W.MON.fired.clear()
        self.lib_raised = False
        if op.get("interrupt_at"):
            # F5: the call is interrupted at an arbitrary line inside the library; whatever it
            # left behind, the same call made again right afterwards must give the right answer
            tracer = LineTracer(lib_prefix(), "interrupt", op["interrupt_at"])
            try:
                with tracer:
                    fn(dict(op, interrupt_at=None))
                self.note("F5_missed")
            except Interrupt:
                self.note("F5_fired")
            except Exception:
                if not tracer.fired:
                    raise
                # the injected KeyboardInterrupt landed inside a C extension calling back into
                # Python (numpy reading a Dim as a shape), which re-raised it as another exception
                self.note("F5_fired_and_converted_by_a_c_extension")
            W.MON.fired.clear()
        out = fn(op)
        self.monitor_after_op(op)
        self.note("op_" + op["op"])
        return out

    def finish(self):
        self.counters["sim_time_ms"] = int(self.sim_time * 1000)

    # -- ops ---------------------------------------------------------------
    def op_new(self, op):
        try:
            c = build_circuit(op["spec"])
        except HarnessError:
            raise
        self.slots[op["slot"]] = {"real": c, "spec": op["spec"], "repr": repr(c)}
        for item in op["spec"]:
            self.note("box_" + item["g"])
        if c.dom:
            self.note("probe_circuit_with_input_wires")
        return "ok %d boxes" % len(c)

    def _local(self, s):
        if "local" not in s:
            try:
                s["local"] = local_mixed(s["real"])
            except Exception as err:
                raise self.vio("local-eval", "the circuit's own mixed evaluation raised %s: %s" % (
                    type(err).__name__, str(err)[:200]))
        return s["local"]

    def op_export(self, op):
        s = self.slots.get(op["src"])
        if s is None:
            return "skipped"
        c = s["real"]
        try:
            tkc = c.to_tk()
        except NotImplementedError:
            self.lib_raised = True
            self.note("export_refused")
            return "refused"
        except Exception as err:
            raise self.vio("export-exception", "to_tk raised %s: %s" % (type(err).__name__, str(err)[:200]))
        ref = self._local(s)
        try:
            got = tksim.tk_semantics(tkc)
        except Exception as err:
            raise self.vio("export-unusable", "exported circuit cannot be post-processed: %s: %s" % (
                type(err).__name__, str(err)[:200]))
        self.case("export", s["repr"])
        if np.asarray(got).shape != ref.shape:
            raise self.vio("export-shape", "exported circuit has %d output bits, the circuit %d" % (
                np.asarray(got).ndim if np.asarray(got).shape != (1,) else 0,
                ref.ndim if ref.shape != (1,) else 0))
        if not close(got, ref):
            raise self.vio("export", "M3(to_tk(c)) with post-selection/scalar/post-processing differs "
                           "from c's mixed evaluation", got=np.round(got.flatten(), 6).tolist(),
                           ref=np.round(ref.flatten(), 6).tolist())
        if repr(c) != s["repr"]:
            raise self.vio("slot-changed", "to_tk changed the source circuit")
        return "ok"

    def op_roundtrip(self, op):
        s = self.slots.get(op["src"])
        if s is None:
            return "skipped"
        from discopy.quantum.circuit import Circuit
        c = s["real"]
        try:
            tkc = c.to_tk()
            if tkc.n_qubits + len(tkc.bits) > 6:
                # the re-imported circuit keeps every unit alive from top to bottom;
                # its mixed evaluation costs 4**n_qubits * 2**n_bits
                self.note("roundtrip_skipped_too_wide")
                return "skipped-wide"
            back = Circuit.from_tk(tkc)
        except NotImplementedError:
            self.note("roundtrip_refused")
            return "refused"
        except Exception as err:
            raise self.vio("roundtrip-exception", "from_tk(to_tk(c)) raised %s: %s" % (
                type(err).__name__, str(err)[:200]))
        ref = self._local(s)
        try:
            got = np.asarray(back.eval(mixed=True).array, dtype=complex)
        except Exception as err:
            raise self.vio("roundtrip-exception", "the re-imported circuit cannot be evaluated: %s: %s" % (
                type(err).__name__, str(err)[:200]))
        self.case("roundtrip", s["repr"])
        if not close(got.reshape(ref.shape) if got.size == ref.size else got, ref):
            raise self.vio("roundtrip", "from_tk(to_tk(c)) has another mixed evaluation than c",
                           got=np.round(got.flatten(), 6).tolist(), ref=np.round(ref.flatten(), 6).tolist())
        return "ok"

    def op_import(self, op):
        from discopy.quantum.circuit import Circuit
        t = tksim.build_tk(op["tk"])
        ref = tksim.simulate(t)
        try:
            d = Circuit.from_tk(t)
        except NotImplementedError:
            self.note("import_refused")
            return "refused"
        except Exception as err:
            raise self.vio("import-exception", "from_tk raised %s: %s" % (type(err).__name__, str(err)[:200]))
        try:
            got = np.asarray(d.eval(mixed=True).array, dtype=complex)
        except Exception as err:
            raise self.vio("import-exception", "the imported circuit cannot be evaluated: %s: %s" % (
                type(err).__name__, str(err)[:200]))
        self.case("import", op["tk"])
        if not close(got.reshape(ref.shape) if got.size == ref.size else got, ref):
            raise self.vio("import", "from_tk(t) does not compute t", got=np.round(got.flatten().real, 6).tolist(),
                           ref=np.round(ref.flatten(), 6).tolist())
        return "ok"

    def _backend_call(self, op, how):
        """how: 'counts' | 'eval' | 'sum_eval' | 'sum_counts'."""
        live = [self.slots[n] for n in op["srcs"] if n in self.slots]
        if not live or len(live) != len(op["srcs"]):
            return "skipped"
        circuits = [s["real"] for s in live]
        refs = [self._local(s) for s in live]
        params = dict(op.get("params", {}))
        if params.get("normalize") is False:
            # raw frequencies were asked for: exact frequencies are n_shots times the probabilities
            refs = [r * params["n_shots"] for r in refs]
            self.note("probe_normalize_false")
        if params.get("post_select") is False:
            # only meaningful (and only compared) when no circuit of the batch records a post-selection
            try:
                if any(c.to_tk().post_selection for c in circuits):
                    del params["post_select"]
            except Exception:
                del params["post_select"]
            else:
                if "post_select" in params:
                    self.note("probe_post_select_false")
        if op.get("compilation"):
            params["compilation"] = make_pass(op["compilation"])
        plan = dict(op["plan"])

        def call(be):
            if how == "counts":
                got = circuits[0].get_counts(*circuits[1:], backend=be, **params)
                return [got] if len(circuits) == 1 else list(got)
            if how == "eval":
                got = circuits[0].eval(*circuits[1:], backend=be, **params)
                return [got] if len(circuits) == 1 else list(got)
            raise HarnessError(how)

        be = tksim.SimBackend(plan, self.result_cache)
        failed = False
        try:
            got = call(be)
        except NotImplementedError:
            self.note("backend_refused")
            return "refused"
        except (tksim.BackendFailure, CompilationFailure) as err:
            failed = True
            if isinstance(err, CompilationFailure):
                self.note("F3_compilation_pass_failed")
                params.pop("compilation", None)
        except Violation:
            raise
        except Exception as err:
            injected = (plan.get("fail_at") and be.calls >= plan["fail_at"]) or \
                op.get("compilation") in ("failing", "mutate_then_fail")
            if injected:
                # the injected failure came out wrapped in another exception class: it was not
                # swallowed, which is all that is asked
                failed = True
                params.pop("compilation", None)
                self.note("F4p_failure_propagated_wrapped")
            else:
                raise self.vio("backend-exception", "%s through the backend raised %s: %s" % (
                    how, type(err).__name__, str(err)[:200]))
        finally:
            self.counters.update(be.stats)
            self.sim_time += be.now
        if op.get("compilation") in ("failing", "mutate_then_fail") and not failed:
            raise self.vio("failure-swallowed", "the compilation pass raised but %s returned a value" % how)
        if plan.get("fail_at") and not failed and be.calls >= plan["fail_at"]:
            raise self.vio("failure-swallowed", "the backend raised at call %d but %s returned a value"
                           % (plan["fail_at"], how))
        if failed:
            # the failure propagated (no number was returned); a retry on the same
            # circuits without the fault must give the fault-free answer
            self.note("F4p_retry")
            plan = dict(plan, fail_at=None)
            be = tksim.SimBackend(plan, self.result_cache)
            try:
                got = call(be)
            except Exception as err:
                raise self.vio("retry", "retry after an injected backend failure raised %s: %s" % (
                    type(err).__name__, str(err)[:200]))
            finally:
                self.counters.update(be.stats)
                self.sim_time += be.now
        if len(got) != len(circuits):
            raise self.vio("batch-length", "batch of %d circuits gave %d results" % (len(circuits), len(got)))
        self.note("batch_size_%d" % len(circuits))
        for k, (c, g, ref, s) in enumerate(zip(circuits, got, refs, live)):
            self.case(how, s["repr"], len(circuits), k)
            if how == "counts":
                n = ref.ndim if ref.shape != (1,) else 0
                arr = as_dist(g, n)
            else:
                arr = np.asarray(g.array, dtype=complex)
                if arr.size == ref.size:
                    arr = arr.reshape(ref.shape)
            if not close(arr, ref):
                raise self.vio(how + "-backend", "member %d of a batch of %d: %s through an exact backend "
                               "differs from local mixed evaluation" % (k, len(circuits), how),
                               got=np.round(arr.flatten(), 6).tolist(), ref=np.round(ref.flatten(), 6).tolist())
        for s in live:
            if repr(s["real"]) != s["repr"]:
                raise self.vio("slot-changed", "a backend call changed the source circuit")
        return "ok%s" % (" after retry" if failed else "")

    def op_counts(self, op):
        return self._backend_call(op, "counts")

    def op_eval(self, op):
        return self._backend_call(op, "eval")

    def op_local_counts(self, op):
        """Local counting (no backend) is 'local evaluation' too: it must be the
        distribution read off the mixed evaluation."""
        s = self.slots.get(op["src"])
        if s is None:
            return "skipped"
        ref = self._local(s)
        try:
            counts = s["real"].get_counts()
        except Exception as err:
            raise self.vio("local-counts", "get_counts() raised %s: %s" % (type(err).__name__, str(err)[:200]))
        n = ref.ndim if ref.shape != (1,) else 0
        if not close(as_dist(counts, n), ref):
            raise self.vio("local-counts", "local get_counts() differs from the mixed evaluation")
        self.case("local_counts", s["repr"])
        return "ok"

    def op_sum(self, op):
        """Sum.eval(backend) / Sum.get_counts(backend): every term with its own scalar."""
        live = [self.slots[n] for n in op["srcs"] if n in self.slots]
        if len(live) < 1 or len(live) != len(op["srcs"]):
            return "skipped"
        circuits = [s["real"] for s in live]
        if len({(repr(c.dom), repr(c.cod)) for c in circuits}) != 1:
            return "skipped-types"
        from discopy.quantum.circuit import Sum
        total = Sum(circuits, circuits[0].dom, circuits[0].cod)
        ref = sum(self._local(s) for s in live)
        if op.get("params", {}).get("normalize") is False:
            ref = ref * op["params"]["n_shots"]
        be = tksim.SimBackend(dict(op["plan"]), self.result_cache)
        try:
            got = total.eval(backend=be, **op.get("params", {}))
        except NotImplementedError:
            return "refused"
        except tksim.BackendFailure:
            self.counters.update(be.stats)
            return "failed"
        except Exception as err:
            if op["plan"].get("fail_at") and be.calls >= op["plan"]["fail_at"]:
                # the injected failure, wrapped in another exception class: it was not swallowed
                self.counters.update(be.stats)
                self.note("F4p_failure_propagated_wrapped")
                return "failed"
            raise self.vio("backend-exception", "Sum.eval(backend) raised %s: %s" % (
                type(err).__name__, str(err)[:200]))
        self.counters.update(be.stats)
        self.sim_time += be.now
        arr = np.asarray(got.array, dtype=complex)
        if arr.size == ref.size:
            arr = arr.reshape(ref.shape)
        self.case("sum", tuple(s["repr"] for s in live))
        if op.get("also_counts"):
            be2 = tksim.SimBackend(dict(op["plan"], fail_at=None), self.result_cache)
            try:
                counts = total.get_counts(backend=be2, **op.get("params", {}))
            except NotImplementedError:
                counts = None
            except Exception as err:
                raise self.vio("backend-exception", "Sum.get_counts(backend) raised %s: %s" % (
                    type(err).__name__, str(err)[:200]))
            self.counters.update(be2.stats)
            if counts is not None:
                n = ref.ndim if ref.shape != (1,) else 0
                dist = as_dist(counts, n)
                if not close(dist, ref):
                    raise self.vio("sum-backend", "Sum.get_counts(backend) of %d terms differs from the sum "
                                   "of local mixed evaluations" % len(live),
                                   got=np.round(dist.flatten(), 6).tolist(), ref=np.round(ref.flatten(), 6).tolist())
                self.note("sum_counts_checked")
        if not close(arr, ref):
            raise self.vio("sum-backend", "Sum.eval(backend) of %d terms differs from the sum of local "
                           "mixed evaluations" % len(live),
                           got=np.round(arr.flatten(), 6).tolist(), ref=np.round(ref.flatten(), 6).tolist())
        return "ok"


_SELFCHECK = []


def prepare():
    """Validate M3 against pytket's own statevector once per (pristine) process;
    touches pytket and numpy only, never discopy."""
    if not _SELFCHECK:
        import random
        if not tksim.selfcheck(random.Random(1), 12):
            raise HarnessError("M3 disagrees with pytket's own statevector")
        _SELFCHECK.append(True)


class CompilationFailure(RuntimeError):
    """Injected callback failure (fault F3)."""


class _Pass:
    def __init__(self, kind):
        self.kind = kind

    def apply(self, circuit):
        if self.kind == "identity":
            return False
        if self.kind == "failing":
            raise CompilationFailure("injected failure of the compilation pass")
        if self.kind == "mutate_then_fail":
            if circuit.n_qubits and len(circuit.bits):
                circuit.X(0)          # the pass got half-way through rewriting the circuit ...
                circuit.Measure(0, 0)
            raise CompilationFailure("injected failure of the compilation pass after it changed the circuit")
        if self.kind == "remove_redundancies":
            from pytket.passes import RemoveRedundancies
            return RemoveRedundancies().apply(circuit)
        if self.kind == "commute":
            from pytket.passes import CommuteThroughMultis
            return CommuteThroughMultis().apply(circuit)
        raise HarnessError(self.kind)


def make_pass(kind):
    return _Pass(kind)


# ---------------------------------------------------------------------------
# driver
# ---------------------------------------------------------------------------

class Driver:
    def __init__(self, prop, cfg, streams):
        self.cfg, self.s = cfg, streams
        self.n = 0
        self.sibs = {}

    def plan(self, batch):
        peer, fault = self.s["peer"], self.s["fault"]
        plan = {
            "rep": peer.choice(["dict", "counter", "backendresult"]),
            "delays": [round(peer.random() * 10, 3) for _ in range(batch)],
            "handle_tags": [peer.getrandbits(20) for _ in range(batch)],
            "handles_as_tuple": peer.random() < 0.5,
            "omit_zero": [peer.randint(0, 1) for _ in range(5)],
            "numpy_keys": [int(peer.random() < 0.3) for _ in range(5)],
            "key_perm": [peer.getrandbits(16) for _ in range(8)] if peer.random() < 0.7 else [],
            "int_counts": peer.random() < 0.4,
            "cache_results": peer.random() < 0.4,
            "fail_at": None,
        }
        if fault.random() < self.cfg["p_fail"]:
            plan["fail_at"] = fault.randint(1, 1 + batch)
        return plan

    def next_op(self, world):
        sched, gen = self.s["sched"], self.s["gen"]
        cfg = self.cfg
        names = sorted(world.slots)
        if not names or (len(names) < 4 and sched.random() < 0.35):
            self.n += 1
            if names and gen.random() < 0.3:
                # a sibling of an existing circuit that differs in one detail only: batches then
                # contain near-duplicates (same shape, another scalar kind, phase or basis state)
                parent = gen.choice(names)
                spec = variant_spec(gen, world.slots[parent]["spec"])
                self.sibs.setdefault(parent, []).append("c%d" % (self.n - 1))
                self.sibs.setdefault("c%d" % (self.n - 1), []).append(parent)
            else:
                spec = gen_circuit_spec(gen, cfg)
            return {"op": "new", "slot": "c%d" % (self.n - 1), "spec": spec}
        r = sched.random()
        if r < cfg["p_import"] * 0.5:
            return {"op": "import", "tk": tksim.gen_tk_spec(gen)}
        src = sched.choice(names)
        if r < 0.35:
            op = {"op": "export", "src": src}
            if self.s["fault"].random() < cfg.get("p_interrupt", 0.0):
                op["interrupt_at"] = max(1, int(5000 ** self.s["fault"].random()))
            return op
        if r < 0.45:
            return {"op": "roundtrip", "src": src}
        if r < 0.52:
            return {"op": "local_counts", "src": src}
        last = getattr(self, "last_backend_op", None)
        if last is not None and r >= 0.52 and sched.random() < 0.12 and all(x in world.slots for x in last["srcs"]):
            # the same request again: a peer with memory may serve the very objects it served before
            self.last_backend_op = None
            return json.loads(json.dumps(last))
        batch = sched.randint(1, min(cfg["batch_max"], len(names)))
        srcs = [src]
        for _ in range(batch - 1):
            sibs = [x for x in self.sibs.get(src, []) if x in world.slots]
            srcs.append(sched.choice(sibs) if sibs and sched.random() < 0.6 else sched.choice(names))
        params = {"n_shots": sched.choice([1, 64, 1024, 4096]), "seed": sched.choice([None, 7])}
        if sched.random() < 0.2:
            params["normalize"] = False
        if sched.random() < 0.15:
            params["post_select"] = False
        op = {"srcs": srcs, "plan": self.plan(batch), "params": params}
        if params.get("normalize") is not False and self.s["peer"].random() < 0.25:
            op["plan"]["shots_factor"] = self.s["peer"].choice([2, 4, 0.5, 0.25])
        if sched.random() < 0.25:
            op["compilation"] = sched.choice(["identity", "remove_redundancies", "commute", "failing",
                                              "mutate_then_fail"])
        if self.s["fault"].random() < cfg.get("p_interrupt", 0.0):
            op["interrupt_at"] = max(1, int(20000 ** self.s["fault"].random()))
        if r < 0.72:
            op["op"] = "eval"
        elif r < 0.9:
            op["op"] = "counts"
        else:
            op["op"] = "sum"
            op["also_counts"] = sched.random() < 0.5
            op.pop("compilation", None)
            op["params"].pop("post_select", None)
        if op["op"] != "sum" and not op.get("interrupt_at") and op.get("compilation") not in ("failing", "mutate_then_fail"):
            self.last_backend_op = op
        return op


def shrink_op(op):
    if op.get("op") == "new":
        spec = op["spec"]
        fringe = ("Bits", "copy", "xor", "not", "rnd", "cnot", "swapb", "swapm")
        order = sorted(range(len(spec)), key=lambda k: (
            0 if spec[k]["g"] in fringe or spec[k].get("bit") or spec[k].get("override_bits") else 1, -k))
        for k in order:       # try to get rid of known-finding triggers first
            cand = dict(op)
            cand["spec"] = spec[:k] + spec[k + 1:]
            yield cand
    if op.get("op") == "import":
        gates = op["tk"]["gates"]
        for k in reversed(range(len(gates))):
            cand = dict(op)
            cand["tk"] = dict(op["tk"], gates=gates[:k] + gates[k + 1:])
            yield cand
    if "srcs" in op and len(op["srcs"]) > 1:
        for k in range(len(op["srcs"])):
            cand = dict(op)
            cand["srcs"] = op["srcs"][:k] + op["srcs"][k + 1:]
            yield cand
    if op.get("compilation"):
        cand = dict(op)
        del cand["compilation"]
        yield cand
    if op.get("interrupt_at"):
        cand = dict(op)
        del cand["interrupt_at"]
        yield cand
    if op.get("plan") and op["plan"].get("fail_at"):
        cand = dict(op)
        cand["plan"] = dict(op["plan"], fail_at=None)
        yield cand


CLASSICAL = ("not", "rnd", "copy", "xor", "cnot", "swapb", "lut")


def circuit_features(spec):
    """Trigger analysis for known-finding signatures: walks the placements,
    tracking wire kinds the same way the generator does."""
    c = build_circuit([])
    feats, seen_arity, seen_classical = set(), False, False
    for item in spec:
        g = item["g"]
        if g == "dom":
            c = build_circuit([item])
            continue
        n_bits_now = sum(1 for x in c.cod if x.name == "bit")
        nxt = build_circuit_step(c, item)
        if nxt is None:
            continue
        if g == "Bits" and n_bits_now:
            feats.add("bits_among_bits")
        if seen_arity and (g in ("Bits", "Measure", "swapb") or (g == "Discard" and item.get("bit"))):
            feats.add("arity_then_register")
        if seen_classical and g == "Measure" and item.get("override_bits"):
            feats.add("classical_then_override")
        if g in ("copy", "xor"):
            seen_arity = True
        if g in CLASSICAL:
            seen_classical = True
        c = nxt
    return feats


def build_circuit_step(c, item):
    from discopy.quantum.circuit import Id
    box = _gate(item)
    at, cod = item["at"], c.cod
    n = len(box.dom)
    if at < 0 or at + n > len(cod) or cod[at:at + n] != box.dom:
        return None
    return c >> Id(cod[:at]) @ box @ Id(cod[at + n:])


def finding_matches(signature, ops, vio):
    """A known finding matches a (minimised) violation when the symptom kind is
    listed AND the trigger is present in a circuit the failing operation used."""
    if vio["kind"] not in signature["kinds"]:
        return False
    if signature.get("message_contains") and signature["message_contains"] not in vio.get("message", ""):
        return False
    if signature.get("symptom") == "output_bits_permuted":
        # the listed defect permutes output bits: same shape, same multiset of values,
        # equal to the reference after some permutation of the bit axes
        import itertools
        d = vio.get("details") or {}
        try:
            got = np.asarray([complex(x) for x in d["got"]])
            ref = np.asarray([complex(x) for x in d["ref"]])
        except (KeyError, TypeError, ValueError):
            return False
        if got.size != ref.size or got.size < 4:
            return False
        n = int(round(np.log2(got.size)))
        g, r = got.reshape((2,) * n), ref.reshape((2,) * n)
        if not any(np.allclose(np.transpose(g, perm), r, atol=1e-5)
                   for perm in itertools.permutations(range(n)) if list(perm) != list(range(n))):
            return False
    elif signature.get("symptom") == "same_shape_other_values":
        d = vio.get("details") or {}
        if "got" in d and "ref" in d and len(d["got"]) != len(d["ref"]):
            return False
    step = vio.get("step")
    if step is None or step >= len(ops):
        return False
    op = ops[step]
    names = op.get("srcs") or ([op["src"]] if "src" in op else [])
    specs = {o["slot"]: o["spec"] for o in ops[:step] if o.get("op") == "new"}
    for name in names:
        if name in specs and signature["trigger"] in circuit_features(specs[name]):
            return True
    return False


def evidence_extra(prop, counters):
    return {"simulated_time": "%.1f simulated backend seconds (discrete-event clock of SimBackend; the client "
                              "blocks in get_result and the clock jumps to the job's completion)"
                              % (counters.get("sim_time_ms", 0) / 1000.0)}
