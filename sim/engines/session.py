"""Engine S: session simulator (C01).  DESIGN.md 5.4.

1-4 simulated clients share a pool of diagrams of one family per run (cat,
monoidal, rigid, tensor, circuit, zx, biclosed, cartesian) and issue public-API
requests - legal ones and deliberately ill-typed ones (F1).  Every value that
comes back (and every term of a sum, every slice of a foliation, every yielded
rewrite step) is scanned from the caller's side; the in-library monitor
re-scans every fast-path construction, including intermediate diagrams no
caller ever sees.  Lazy rewriters are tasks; calls may be interrupted (F5),
callbacks may fail (F3), returned lists may be scribbled on (F7)."""
from sim import world as W
from sim import model as M
from sim import build as B
from sim.core import (World as BaseWorld, Violation, HarnessError, LineTracer, Interrupt, Budget, h64)

import re
_ADDR = re.compile(r"0x[0-9a-fA-F]+")
NAME = "session"
FAMILIES = ["cat", "monoidal", "rigid", "tensor", "circuit", "zx", "biclosed", "cartesian"]
POOL_CAP = 10


def make_config(prop, rng, tier):
    return {
        "prop": prop, "tier": tier,
        "family": rng.choice(FAMILIES + ["monoidal", "rigid"]),
        "max_steps": rng.choice([30, 60, 100]),
        "clients": rng.randint(1, 4),
        "p_illegal": rng.choice([0.05, 0.15, 0.3]),
        "p_interrupt": rng.choice([0.0, 0.05, 0.2]),
        "p_scribble": rng.choice([0.0, 0.03]),
        "nboxes": rng.randint(1, 6), "maxw": rng.choice([3, 4, 5]),
        "flatten_biclosed": rng.random() < 0.3,
        "pro_names": rng.random() < 0.15,      # rigid sessions over the generator of PRO (name 1) only
        **({"max_steps": 160, "nboxes": rng.randint(5, 8)} if tier == "thorough" and rng.random() < 0.3 else {}),
    }


def lib_prefix():
    import os
    return os.path.join(os.path.realpath(W.REPO), "discopy") + os.sep


# ---------------------------------------------------------------------------
# scanning of returned values
# ---------------------------------------------------------------------------

def cat_problem(a):
    scan = a.dom
    for k, box in enumerate(a.boxes):
        if not W.same_type(box.dom, scan):
            return "box %d does not compose" % k
        scan = box.cod
    if not W.same_type(scan, a.cod):
        return "arrow ends on %s, not on its codomain %s" % (scan, a.cod)
    return None


def scan_value(v, what, depth=0):
    """Raises Violation if v (or anything inside it) is an ill-typed diagram.
    Returns the number of diagrams scanned."""
    from discopy import cat, monoidal
    n = 0
    if isinstance(v, (list, tuple)):
        for x in v:
            n += scan_value(x, what, depth)
        return n
    if isinstance(v, cat.Sum):
        for t in v.terms:
            if not W.same_type(t.dom, v.dom) or not W.same_type(t.cod, v.cod):
                raise Violation("C01.ill-typed", "%s: a term of the sum has another type than the sum" % what)
            n += scan_value(t, what + " (term)", depth + 1)
        return n
    if isinstance(v, monoidal.Diagram):
        msg = B.public_scan_problem(v)
        if msg:
            raise Violation("C01.ill-typed", "%s is ill-typed: %s" % (what, msg), {"repr": repr(v)[:400]})
        n += 1
        if depth < 3:
            for b in v.boxes:
                if isinstance(b, cat.Bubble):
                    n += scan_value(b.inside, what + " (inside bubble)", depth + 1)
                elif b is not v and isinstance(b, monoidal.Diagram) and not isinstance(b, cat.Box):
                    n += scan_value(b, what + " (box that is a diagram)", depth + 1)
        return n
    if isinstance(v, cat.Arrow):
        msg = cat_problem(v)
        if msg:
            raise Violation("C01.ill-typed", "%s is ill-typed: %s" % (what, msg), {"repr": repr(v)[:400]})
        return 1
    return 0


def fingerprint(v):
    from discopy import monoidal
    if isinstance(v, monoidal.Diagram):
        return (repr(v.dom), repr(v.cod), tuple(repr(b) for b in v.boxes), tuple(v.offsets))
    return (repr(v.dom), repr(v.cod), tuple(repr(b) for b in v.boxes))


# ---------------------------------------------------------------------------
# family-specific construction from explicit specs
# ---------------------------------------------------------------------------

def fam(family):
    from discopy import cat, monoidal, rigid, tensor, biclosed, cartesian
    from discopy.quantum import circuit, zx
    return {"cat": cat, "monoidal": monoidal, "rigid": rigid, "tensor": tensor, "circuit": circuit,
            "zx": zx, "biclosed": biclosed, "cartesian": cartesian}[family]


def mk_type(family, t):
    """t: list of atoms (family dependent) -> type object"""
    mod = fam(family)
    if family == "cat":
        return mod.Ob(t)
    if family == "monoidal":
        return mod.Ty(*t)
    if family == "rigid":
        return mod.Ty(*[mod.Ob(a[0], a[1]) for a in t])
    if family == "tensor":
        return mod.Dim(*t)
    if family == "circuit":
        ty = mod.Ty()
        for a in t:
            ty = ty @ (mod.qubit if a == "qubit" else mod.bit)
        return ty
    if family == "zx":
        return mod.PRO(len(t))
    if family == "cartesian":
        return mod.PRO(len(t))
    if family == "biclosed":
        from sim.engines.grammar import mk_bty
        ty = mod.Ty()
        for a in t:
            ty = ty @ mk_bty(a)
        return ty
    raise HarnessError(family)


def mk_box(family, b):
    mod = fam(family)
    dom, cod = mk_type(family, b["dom"]), mk_type(family, b["cod"])
    if family == "cat":
        box = mod.Box(b["name"], dom, cod)
    elif family == "tensor":
        import numpy as np
        n = 1
        for a in b["dom"] + b["cod"]:
            n *= a
        box = mod.Box(b["name"], dom, cod, np.arange(n) % 3 - 1)
    elif family == "cartesian":
        k = len(b["cod"])
        box = mod.Box(b["name"], len(b["dom"]), k, _cart_function(k))
    else:
        box = mod.Box(b["name"], dom, cod)
    if b.get("dagger"):
        try:
            box = box.dagger()
        except TypeError:      # cartesian boxes have no dagger (observation in DESIGN 9)
            pass
    return box


def _cart_function(k):
    def function(*xs):
        return tuple(range(k))
    function.__qualname__ = function.__name__ = "const%d" % k     # no addresses in reprs
    return function


def atoms(family, rng, n):
    if family == "cat":
        return rng.choice("xyz")
    if family == "monoidal":
        return [rng.choice(["x", "y", "x", "y", 2, 3]) for _ in range(n)]      # names may be numbers
    if family == "rigid":
        # (the name 1 is the generator of PRO: rigid types over it meet PRO wires)
        return [[rng.choice(["a", "b", "a", "b", 1]), rng.choice([0, 0, 0, 1, -1])] for _ in range(n)]
    if family == "tensor":
        return [rng.choice([2, 2, 3]) for _ in range(n)]
    if family == "circuit":
        return [rng.choice(["qubit", "qubit", "bit"]) for _ in range(n)]
    if family in ("zx", "cartesian"):
        return [1] * n
    if family == "biclosed":
        from sim.engines.grammar import gen_bty_bounded
        return [gen_bty_bounded(rng, rng.choice([0, 1, 1, 2]), 1, 3) for _ in range(n)]
    raise HarnessError(family)


def type_key(family, ty):
    """hashable identity of a type for legality decisions (model side)"""
    if family == "cat":
        return repr(ty)
    return tuple(repr(o) for o in ty.objects)


# ---------------------------------------------------------------------------
# world
# ---------------------------------------------------------------------------

class World(BaseWorld):
    def __init__(self, prop, cfg):
        super().__init__(prop, cfg)
        W.load()
        W.MON.fired.clear()
        W.MON.raise_on_fire = False
        self.family = cfg["family"]
        self.pool = {}        # name -> {"real", "fp"}
        self.tasks = {}

    def vio(self, what, msg, **details):
        return Violation("C01.%s" % what, msg, details)

    # -- bookkeeping -----------------------------------------------------------
    def put(self, name, v, what):
        n = scan_value(v, what)
        self.note("values_scanned", n)
        from discopy import cat
        if isinstance(v, cat.Arrow) and not isinstance(v, cat.Sum) and not self.in_family(v):
            # e.g. tensor.Diagram.permutation returns a rigid.Diagram: scanned above, but not
            # pooled - mixing diagram classes in one operation is outside the property's quantifier
            self.note("class_leak_not_pooled")
        elif isinstance(v, cat.Arrow) and not isinstance(v, cat.Sum) and (
                len(v) > 14 or len(getattr(v.cod, "objects", ())) > 8 or len(getattr(v.dom, "objects", ())) > 8):
            self.note("too_big_not_pooled")       # sizes are bounded: <= 14 boxes, <= 8 wires
        elif isinstance(v, cat.Arrow) and not isinstance(v, cat.Sum):
            self.pool[name] = {"real": v, "fp": fingerprint(v)}
            self.states.add(h64(self.pool[name]["fp"]))
            if len(self.pool) > POOL_CAP:
                del self.pool[sorted(self.pool)[0]]
        self.case(self.family, what.split(" ")[0], _ADDR.sub("0x", repr(v)[:300]))

    def in_family(self, v):
        family = self.family
        if family == "cat":
            from discopy import cat, monoidal
            return isinstance(v, cat.Arrow) and not isinstance(v, monoidal.Diagram)
        if family == "biclosed":
            from discopy import biclosed
            return isinstance(v, biclosed.Diagram)
        if family == "cartesian":
            from discopy import cartesian
            return isinstance(v, cartesian.Diagram)
        return isinstance(v, B.diagram_class(family))

    def check_pool(self):
        for name, s in self.pool.items():
            if fingerprint(s["real"]) != s["fp"]:
                raise self.vio("slot-changed", "pool value %s changed behind the caller's back" % name)
            scan_value(s["real"], "pool value " + name)

    def apply(self, op):
        fn = getattr(self, "op_" + op["op"], None)
        if fn is None:
            raise HarnessError("unknown op %r" % op["op"])
        W.MON.fired.clear()
        self.lib_raised = False
        try:
            if op.get("interrupt_at"):
                with LineTracer(lib_prefix(), "interrupt", op["interrupt_at"]):
                    out = fn(op)
                self.note("F5_missed")
            else:
                out = fn(op)
        except Interrupt:
            self.note("F5_fired")
            W.MON.fired.clear()
            self.check_pool()
            for t in self.tasks.values():        # a generator interrupted inside next() is dead
                if t.get("running"):
                    t["status"] = "dead"
            return "interrupted"
        if W.MON.fired and self.lib_raised:
            # the request was refused with an error: a temporary built before the library noticed
            # is not a diagram that was handed back (recorded, not a violation)
            self.note("monitor_fired_before_a_refusal", len(W.MON.fired))
            W.MON.fired.clear()
        alive = W.surviving_firings()
        if alive:
            msg, cls = alive[0]
            n = len(alive)
            raise self.vio("monitor", "while executing %s the library built an ill-typed %s on its trusted "
                           "fast path: %s (%d firings)" % (op["op"] + ":" + str(op.get("f", op.get("kind", ""))),
                                                           cls, msg, n))
        self.note("op_" + op["op"])
        self.note("ops_total")
        if self.counters["ops_total"] % 10 == 0:
            self.check_pool()
        return out

    def finish(self):
        self.check_pool()
        self.counters["monitor_constructions_seen"] = W.MON.calls
        self.counters["monitor_fastpath_rescanned"] = W.MON.fast
        self.counters["monitor_firings_on_discarded_temporaries"] = W.MON.discarded
        W.MON.calls = W.MON.fast = 0
        for t in self.tasks.values():
            if t["status"] == "live":
                t["gen"].close()

    def request(self, legal, what, thunk):
        """Issue a request.  legal: True / False / None (None = no expectation)."""
        try:
            v = thunk()
        except Interrupt:
            raise
        except (Budget, KeyboardInterrupt):
            raise
        except RecursionError:
            self.note("recursion_error")
            self.lib_raised = True
            return None, "RecursionError"
        except Exception as err:
            self.lib_raised = True
            if legal is False:
                self.note("F1_refused")
            else:
                self.note("legal_request_raised_" + type(err).__name__)
            return None, type(err).__name__
        if legal is False:
            n_ok = None
            raise self.vio("accepted-ill-typed", "ill-typed request %s was not refused; it returned %s"
                           % (what, repr(v)[:200]))
        return v, "value"

    def get(self, name):
        s = self.pool.get(name)
        return None if s is None else s["real"]

    # -- ops -------------------------------------------------------------------
    def op_init(self, op):
        family = self.family
        for k, spec in enumerate(op["values"]):
            v = self.make(spec)
            if v is not None and spec.get("which") == "Plain":
                name = spec.get("name", "p%d" % k)
                self.note("values_scanned", scan_value(v, "plain monoidal box"))
                self.pool[name] = {"real": v, "fp": fingerprint(v)}       # (put() keeps to the family's class)
                self.note("plain_boxes_pooled")
            elif v is not None:
                self.put(spec.get("name", "p%d" % k), v, "constructed value")
        return "pool of %d" % len(self.pool)

    def make(self, spec):
        family = self.family
        kind = spec["kind"]
        if kind == "box":
            return mk_box(family, spec["box"])
        if kind == "id":
            mod = fam(family)
            if family == "cartesian":
                return mod.Id(len(spec["ty"]))
            if family == "zx":
                return mod.Id(len(spec["ty"]))
            return mod.Id(mk_type(family, spec["ty"]))
        if kind == "spec":           # monoidal-like spec through the scanning constructor
            try:
                return B.build(spec["spec"])
            except M.ModelError:
                return None
        if kind == "chain":          # cat arrows
            mod = fam("cat")
            boxes = [mk_box("cat", b) for b in spec["boxes"]]
            return mod.Arrow(boxes[0].dom, boxes[-1].cod, boxes)
        if kind == "special":
            return self.make_special(spec)
        raise HarnessError(kind)

    def make_special(self, spec):
        family, which = self.family, spec["which"]
        mod = fam(family)
        if family == "biclosed":
            from sim.engines.grammar import mk_bty
            a, b, c = (mk_bty(x) for x in spec["abc"])
            return {"FA": lambda: mod.FA(a << b), "BA": lambda: mod.BA(a >> b),
                    "FC": lambda: mod.FC(a << b, b << c), "BC": lambda: mod.BC(a >> b, b >> c),
                    "FX": lambda: mod.FX(a << b, c >> b), "BX": lambda: mod.BX(a << b, a >> c),
                    "Curry": lambda: mod.Curry(mod.Box("f", a @ b, c), n_wires=len(b)),
                    "CurryL": lambda: mod.Curry(mod.Box("f", a @ b, c), n_wires=len(a), left=True)}[which]()
        if family == "cartesian":
            n = spec["n"]
            return {"Swap": lambda: mod.Swap(n, spec["m"]), "Copy": lambda: mod.Copy(n),
                    "Discard": lambda: mod.Discard(n)}[which]()
        if family == "zx":
            cls = {"Z": mod.Z, "X": mod.X}[which]
            return cls(spec["n"], spec["m"], spec.get("phase", 0))
        if family == "tensor":
            return mod.Spider(spec["n"], spec["m"], mod.Dim(spec.get("dim", 2)))
        if family == "rigid" and spec["which"] == "ProId":
            from discopy import rigid
            return rigid.Id(rigid.PRO(spec["n"]))
        if family == "rigid" and spec["which"] == "Plain":
            # a box of the plain monoidal class with plain (name-only) objects: legal company for rigid
            # diagrams wherever its wires meet wires that are no adjoints
            from discopy import monoidal
            return monoidal.Box(spec["name"], monoidal.Ty(*spec["dom"]), monoidal.Ty(*spec["cod"]))
        if family == "rigid":
            # pregroup words, some with a free symbol in their data (for subs / lambdify)
            import sympy
            from discopy.grammar.pregroup import Word
            ty = mk_type("rigid", spec["ty"])
            return Word(spec["name"], ty, data=sympy.Symbol("phi") if spec.get("sym") else None)
        if family == "circuit":
            from discopy.quantum import gates as G
            from discopy.quantum import circuit as C
            return {"H": lambda: G.H, "CX": lambda: G.CX, "Rx": lambda: G.Rx(spec.get("phase", 0.25)),
                    "Ket": lambda: G.Ket(0, 1), "Bra": lambda: G.Bra(1), "Measure": lambda: C.Measure(),
                    "Discard": lambda: C.Discard(), "SWAP": lambda: G.SWAP,
                    "CRz": lambda: G.CRz(spec.get("phase", 0.25)),
                    "Measure_nd": lambda: C.Measure(1, destructive=False),
                    "Measure_ob": lambda: C.Measure(1, destructive=False, override_bits=True),
                    "Measure2": lambda: C.Measure(2), "Encode": lambda: C.Encode(),
                    "Encode_nc": lambda: C.Encode(1, constructive=False),
                    "MixedState": lambda: C.MixedState(), "MixedBit": lambda: C.MixedState(C.bit),
                    "DiscardBit": lambda: C.Discard(C.bit),
                    "Rx_sym": lambda: G.Rx(__import__("sympy").Symbol("phi")),
                    "CRz_sym": lambda: G.CRz(2 * __import__("sympy").Symbol("phi"))}[which]()
        raise HarnessError("no special values for " + family)

    def op_binop(self, op):
        a, b = self.get(op["a"]), self.get(op["b"])
        if a is None or b is None:
            return "skipped"
        f, family = op["f"], self.family
        if f == "tensor":
            if family == "cat":
                return "skipped"
            legal = True
            v, out = self.request(legal, "a @ b", lambda: a @ b)
        else:
            x, y = (a, b) if f == "then" else (b, a)
            legal = type_key(family, x.cod) == type_key(family, y.dom)
            v, out = self.request(legal, "%s >> %s" % (x.cod, y.dom),
                                  (lambda: a >> b) if f == "then" else (lambda: a << b))
        if v is not None:
            self.put(op["dst"], v, f + " result")
        return out

    def op_sum(self, op):
        """formal sums: a + b, then composed / tensored with c; every term is scanned"""
        a, b, c = self.get(op["a"]), self.get(op["b"]), self.get(op["c"])
        if a is None or b is None or c is None or self.family in ("cartesian",):
            return "skipped"
        same = type_key(self.family, a.dom) == type_key(self.family, b.dom) \
            and type_key(self.family, a.cod) == type_key(self.family, b.cod)
        if op.get("zero"):
            # the sum of no terms at all (what grad() of a constant gives): a value with types only
            v, out = self.request(True, "Sum([], a.dom, a.cod)", lambda: a.sum([], a.dom, a.cod))
            self.note("zero_sums")
        else:
            v, out = self.request(same, "a + b", lambda: a + b)
        if v is None:
            return out
        self.note("values_scanned", scan_value(v, "sum"))
        how = op["how"]
        if how == "then":
            legal = type_key(self.family, a.cod) == type_key(self.family, c.dom)
            w, out = self.request(legal, "(a + b) >> c", lambda: v >> c)
        elif how == "tensor" and self.family != "cat":
            w, out = self.request(True, "(a + b) @ c", lambda: v @ c)
        else:
            w, out = self.request(True, "(a + b)[::-1]", lambda: v[::-1])
        if w is not None:
            self.note("values_scanned", scan_value(w, "sum " + how))
            self.note("sums_built")
        return out

    def op_then_many(self, op):
        vals = [self.get(n) for n in op["args"]]
        if any(v is None for v in vals):
            return "skipped"
        legal = all(type_key(self.family, x.cod) == type_key(self.family, y.dom)
                    for x, y in zip(vals, vals[1:]))
        v, out = self.request(legal, "a.then(*others)", lambda: vals[0].then(*vals[1:]))
        if v is not None:
            self.put(op["dst"], v, "then(*others) result")
        return out

    def op_unop(self, op):
        a = self.get(op["a"])
        if a is None:
            return "skipped"
        f, family = op["f"], self.family
        from discopy import monoidal
        if f != "dagger" and not isinstance(a, monoidal.Diagram):
            return "skipped"
        if f == "flatten" and len(a) > 9:
            return "skipped-size"
        if f in ("normal_form", "foliation", "foliation_flatten", "normalize_all", "foliate_all",
                 "depth_width") and len(a) > 9:
            return "skipped-size"       # rewriting is cubic and worse in the number of boxes
        if f == "dagger":
            thunk = lambda: a[::-1]
        elif f == "dagger_method":
            thunk = lambda: a.dagger()
        elif f == "normal_form":
            thunk = lambda: self._budgeted(lambda: a.normal_form(left=op.get("left", False)))
        elif f == "foliation":
            thunk = lambda: a.foliation()
        elif f == "foliation_flatten":
            if family == "biclosed" and not self.cfg["flatten_biclosed"]:
                return "skipped"
            thunk = lambda: a.foliation().flatten()
        elif f == "flatten":
            if family == "biclosed" and not self.cfg["flatten_biclosed"]:
                return "skipped"
            thunk = lambda: a.flatten()       # of a foliation (possibly tensored / composed further) or of a plain diagram
        elif f == "iter":
            thunk = lambda: list(a)
        elif f == "normalize_all":
            thunk = lambda: self._budgeted(lambda: self._take(a.normalize(left=op.get("left", False)), 40))
        elif f == "foliate_all":
            thunk = lambda: self._take(a.foliate(), 40)
        elif f == "depth_width":
            thunk = lambda: (a.depth(), a.width()) and None
        elif f in ("transpose_l", "transpose_r"):
            if not hasattr(a, "transpose") or family in ("cartesian", "biclosed", "monoidal"):
                return "skipped"
            thunk = lambda: a.transpose(left=(f == "transpose_l"))
        elif f == "bubble":
            thunk = lambda: a.bubble()
        elif f == "downgrade":
            thunk = lambda: a.downgrade()
        elif f == "layers_slices":
            thunk = lambda: [a[:k] >> a[k:] for k in range(len(a) + 1)]
        elif f in ("subs_any", "lambdify_any"):
            import sympy
            phi = sympy.Symbol("phi")
            if len(a) > 10:
                return "skipped"
            thunk = (lambda: a.subs(phi, 0.5)) if f == "subs_any" else (lambda: a.lambdify(phi)(0.5))
        elif f in ("circuit2zx", "init_and_discard", "tk_roundtrip", "grad", "subs"):
            if family != "circuit" or len(a) > 8:
                return "skipped"
            import sympy
            phi = sympy.Symbol("phi")
            if f == "circuit2zx":
                from discopy.quantum.zx import circuit2zx
                thunk = lambda: circuit2zx(a)
            elif f == "init_and_discard":
                thunk = lambda: a.init_and_discard()
            elif f == "tk_roundtrip":
                from discopy.quantum.circuit import Circuit
                thunk = lambda: Circuit.from_tk(a.to_tk())
            elif f == "grad":
                thunk = lambda: a.grad(phi)
            else:
                thunk = lambda: a.subs(phi, 0.25)
        else:
            raise HarnessError(f)
        v, out = self.request(True, f, thunk)
        if v is not None:
            if isinstance(v, list):
                scanned = scan_value(v, f + " item")
                self.note("values_scanned", scanned)
                self.note("yielded_or_listed_items", len(v))
                if v and op.get("dst"):
                    self.put(op["dst"], v[-1], f + " last item")
            else:
                self.put(op["dst"], v, f + " result")
        return out

    def _take(self, gen, n):
        out = []
        for k, x in enumerate(gen):
            out.append(x)
            if k + 1 >= n:
                gen.close()
                break
        return out

    def _budgeted(self, thunk):
        import sys
        if sys.gettrace() is not None:      # already under the F5 tracer
            return thunk()
        try:
            with LineTracer(lib_prefix(), "budget", 600000):
                return thunk()
        except Budget:
            self.note("budget_abandoned")
            raise NotImplementedError("budget")

    def op_slice(self, op):
        a = self.get(op["a"])
        if a is None:
            return "skipped"
        i, j, step = op["i"], op["j"], op["step"]
        n = len(a)
        if step in (None, 1):
            legal = True
        elif step == -1:
            # reading the whole arrow backwards is the dagger; a partial backwards slice
            # must either be refused or be the (well-typed) dagger of the forward slice
            legal = None
        else:
            legal = False
        v, out = self.request(legal, "a[%s:%s:%s]" % (i, j, step), lambda: a[i:j:step])
        if v is not None:
            self.put(op["dst"], v, "slice result")
            if step == -1 and not (i is None and j is None):
                self.note("probe_partial_reverse_slice")
        return out

    def op_index(self, op):
        a = self.get(op["a"])
        if a is None:
            return "skipped"
        n, i = len(a), op["i"]
        legal = -n <= i < n
        v, out = self.request(legal, "a[%d] with %d boxes" % (i, n), lambda: a[i])
        if v is not None:
            self.put(op["dst"], v, "index result")
        return out

    def op_interchange(self, op):
        a = self.get(op["a"])
        from discopy import monoidal
        if a is None or not isinstance(a, monoidal.Diagram):
            return "skipped"
        model = M.model_of(a)
        ana = M.move_analysis(model, op["i"], op["j"])
        legal = False if ana == "IndexError" or not ana[0] else (True if ana[1] else None)
        v, out = self.request(legal, "interchange(%d, %d)" % (op["i"], op["j"]),
                              lambda: a.interchange(op["i"], op["j"], left=op["left"]))
        if v is not None:
            self.put(op["dst"], v, "interchange result")
        return out

    def op_construct(self, op):
        family, kind = self.family, op["kind"]
        mod = fam(family)
        legal, thunk = True, None
        if kind == "swap":
            l, r = mk_type(family, op["l"]), mk_type(family, op["r"])
            D = self._dclass()
            thunk = lambda: D.swap(l, r)
        elif kind == "swap_box":
            l, r = mk_type(family, op["l"]), mk_type(family, op["r"])
            legal = len(l) == 1 and len(r) == 1
            thunk = lambda: mod.Swap(l, r)
        elif kind == "permutation":
            perm = list(op["perm"])
            dom = mk_type(family, op["dom"]) if op.get("dom") is not None else None
            legal = sorted(perm) == list(range(len(perm))) and (dom is None or len(dom) == len(perm))
            D = self._dclass()
            thunk = (lambda: D.permutation(perm, dom)) if dom is not None else (lambda: D.permutation(perm))
        elif kind == "permute":
            a = self.get(op["a"])
            if a is None or family == "cat":
                return "skipped"
            perm = list(op["perm"])
            legal = None if sorted(perm) == list(range(len(a.cod))) else False
            thunk = lambda: a.permute(*perm)
        elif kind in ("cups", "caps", "cup", "cap"):
            from discopy import rigid
            l, r = mk_type("rigid", op["l"]), mk_type("rigid", op["r"])
            adj = (l.r == r or l == r.r) and len(l) == len(r)
            if kind in ("cup", "cap"):
                legal = adj and len(l) == 1
                cls = rigid.Cup if kind == "cup" else rigid.Cap
                thunk = lambda: cls(l, r)
            else:
                legal = adj
                thunk = lambda: getattr(rigid.Diagram, kind)(l, r)
        elif kind in ("fam_cups", "fam_caps"):
            # the cups/caps of the semantic classes (tensor: any dimensions; circuit: qubits and bits)
            l = mk_type(family, op["l"])
            r = mk_type(family, op["r"])
            legal = None if list(reversed(op["l"])) == list(op["r"]) else False
            D = self._dclass()
            thunk = lambda: getattr(D, kind[4:])(l, r)
        elif kind == "random_tiling":
            from discopy.quantum import circuit as C, gates as G
            rnd = SimRandom2(op["decisions"])
            C.random = rnd                   # the PRNG seam of random_tiling: a module attribute
            import numpy as _np
            table = {"H": G.H, "CX": G.CX, "Rx": G.Rx, "Rz": G.Rz, "T": G.T, "CZ": G.CZ,
                     # unusual but legal members of a gateset: a three-qubit gate, a box that
                     # changes the number of wires - where they do not fit the call must raise
                     "CCZ": G.QuantumGate("CCZ", 3, _np.diag([1, 1, 1, 1, 1, 1, 1, -1]), _dagger=None),
                     "Discard": C.Discard()}
            gateset = [table[g] for g in op["gateset"]]
            legal = None
            thunk = lambda: C.random_tiling(op["n"], op["depth"], gateset=gateset, seed=op.get("seed"))
            self.note("F6_random_tiling_decisions", len(op["decisions"]))
        elif kind in ("fa", "ba", "fc", "bc", "fx", "bx"):
            from discopy import rigid
            tys = [mk_type("rigid", t) for t in op["tys"]]
            legal = None
            thunk = lambda: getattr(rigid.Diagram, kind)(*tys)
        elif kind == "curry":
            a = self.get(op["a"])
            if a is None or not hasattr(a, "curry"):
                return "skipped"
            legal = None
            thunk = lambda: type(a).curry(a, op["n"], op["left"])
        elif kind == "raw":
            # the public scanning constructor, possibly with wrong cod / offsets
            spec = op["spec"]
            try:
                sm = B.spec_model(spec)
                cod = M.cod_of(sm)
                legal = [list(x) for x in cod] == [list(x) for x in spec.get("cod", cod)]
            except M.ModelError:
                legal, cod = False, spec.get("cod", [])
            cls = spec["cls"]
            boxes = [B.make_box(cls, b) for b in spec["boxes"]]
            dom_t, cod_t = B.make_ty(cls, spec["dom"]), B.make_ty(cls, spec.get("cod", cod))
            thunk = lambda: B.diagram_class(cls)(dom_t, cod_t, boxes, list(spec["offsets"]))
        else:
            raise HarnessError(kind)
        v, out = self.request(legal, "%s%s" % (kind, {k: op[k] for k in op if k not in ("op", "kind", "dst")}),
                              thunk)
        if v is not None:
            self.put(op["dst"], v, kind + " result")
        return out

    def _dclass(self):
        family = self.family
        if family in ("cat",):
            raise HarnessError("no swaps in cat")
        if family == "biclosed" or family == "cartesian":
            from discopy import monoidal
            return monoidal.Diagram if family == "biclosed" else fam(family).Diagram
        return B.diagram_class(family)

    def op_functor(self, op):
        a = self.get(op["a"])
        if a is None:
            return "skipped"
        family = self.family
        if family not in ("cat", "monoidal", "rigid"):
            return "skipped"
        if any(not hasattr(b, "name") for b in a.boxes):
            return "skipped"        # a foliation: its boxes are diagrams
        mod = fam(family)
        obmap = {k: v for k, v in op["ob"]}
        calls = {"n": 0}

        def ob_image(t):
            # t: a type of length 1 (or a cat.Ob)
            if family == "cat":
                return mod.Ob(obmap.get(str(t.name), str(t.name)))
            name = str(t[0].name)
            img = obmap.get(name, [name])
            if family == "monoidal":
                return mod.Ty(*img)
            return mod.Ty(*[mod.Ob(x, 0) for x in img])

        def ar_image(box):
            calls["n"] += 1
            if op.get("fail_at") and calls["n"] == op["fail_at"]:
                raise CallbackFailure("injected callback failure")
            dom, cod = F(box.dom), F(box.cod)
            style = op.get("ar_style", 0)
            if family == "cat":
                return mod.Box("F" + str(box.name), dom, cod)
            if style == 0 or not len(dom):
                return mod.Box("F" + str(box.name), dom, cod)
            mid = dom[:1]                 # a two-box image
            return mod.Box("F1" + str(box.name), dom, mid) >> mod.Box("F2" + str(box.name), mid, cod)

        if op.get("as_dict"):
            obs, boxes = {}, {}
            types = [a.dom, a.cod] + [b.dom for b in a.boxes] + [b.cod for b in a.boxes]
            if family == "cat":
                for t in types:
                    obs[t] = ob_image(t)
            else:
                for t in types:
                    for o in t.objects:
                        base = mod.Ty(o.name) if family == "monoidal" else mod.Ty(mod.Ob(o.name, 0))
                        obs[base] = ob_image(base)
            F = mod.Functor(ob=obs, ar={})
            for b in a.boxes:
                base = b.dagger() if getattr(b, "is_dagger", False) else b
                if type(b).__name__ in ("Cup", "Cap", "Swap"):
                    continue
                try:
                    boxes[base] = ar_image(base)
                except CallbackFailure:
                    self.note("F3_fired")
                    return "callback failed while building the dict"
                except KeyError:
                    # an object the dict does not list (PRO wires of a bare permutation):
                    # the harness could not build this functor; nothing was requested
                    self.note("functor_dict_not_buildable")
                    return "skipped"
            F = mod.Functor(ob=obs, ar=boxes)
        else:
            F = mod.Functor(ob=ob_image, ar=ar_image)
        try:
            v, out = self.request(None, "functor image", lambda: F(a))
        finally:
            pass
        if out == "CallbackFailure":
            self.note("F3_fired")
            self.check_pool()
            return "callback failure propagated"
        if op.get("fail_at") and not op.get("as_dict") and calls["n"] >= op["fail_at"] and v is not None:
            raise self.vio("failure-swallowed", "a functor map raised at its %d-th call but the functor "
                           "returned a value" % op["fail_at"])
        if v is not None:
            self.put(op["dst"], v, "functor image")
            img_dom = F(a.dom)
            if type_key(family, v.dom) != type_key(family, img_dom):
                raise self.vio("ill-typed", "functor image's domain is not the image of the domain")
        return out

    def op_scribble(self, op):
        a = self.get(op["a"])
        if a is None:
            return "skipped"
        what = op["what"]
        lst = a.boxes if what == "boxes" else getattr(a, "offsets", None) if what == "offsets" else None
        if lst is None:
            return "skipped"
        lst.reverse()
        lst.append(lst[0] if lst else 0)
        self.note("F7_fired")
        self.check_pool()
        return "ok"

    # lazy rewriters as tasks ---------------------------------------------------
    def op_task_start(self, op):
        a = self.get(op["a"])
        from discopy import monoidal
        if a is None or not isinstance(a, monoidal.Diagram):
            return "skipped"
        if len(a) > 9:
            return "skipped-size"
        gen = a.normalize(left=op.get("left", False)) if op["kind"] == "normalize" else a.foliate()
        self.tasks[op["task"]] = {"gen": gen, "status": "live", "steps": 0, "seen": set()}
        return "ok"

    def op_task_next(self, op):
        t = self.tasks.get(op["task"])
        if t is None or t["status"] != "live":
            return "skipped"
        t["running"] = True
        try:
            v = next(t["gen"])
        except StopIteration:
            t["status"] = "done"
            return "done"
        except Interrupt:
            raise
        except Exception as err:
            t["status"] = "dead"
            self.lib_raised = True
            self.note("legal_request_raised_" + type(err).__name__)
            return type(err).__name__
        finally:
            t["running"] = False
        t["steps"] += 1
        self.note("yielded_rewrite_steps")
        n = scan_value(v, "yielded rewrite step")
        self.note("values_scanned", n)
        fp = fingerprint(v)
        if fp in t["seen"] or t["steps"] >= 60:
            t["gen"].close()
            t["status"] = "closed"
        t["seen"].add(fp)
        if op.get("dst"):
            self.put(op["dst"], v, "yielded step")
        return "step"

    def op_task_close(self, op):
        t = self.tasks.get(op["task"])
        if t is None or t["status"] != "live":
            return "skipped"
        t["gen"].close()
        t["status"] = "closed"
        self.note("F2_abandoned")
        return "closed"


class CallbackFailure(Exception):
    pass


class SimRandom2:
    """Stands in for `random` inside discopy.quantum.circuit (random_tiling):
    every draw is the next recorded decision."""
    def __init__(self, decisions):
        self.d, self.k = list(decisions) or [0], 0

    def _next(self):
        v = self.d[self.k % len(self.d)]
        self.k += 1
        return v

    def seed(self, value=None):
        return None

    def random(self):
        return (self._next() % 4096) / 4096.0

    def choice(self, seq):
        return seq[self._next() % len(seq)]


# ---------------------------------------------------------------------------
# driver
# ---------------------------------------------------------------------------

class Driver:
    def __init__(self, prop, cfg, streams):
        self.cfg, self.s = cfg, streams
        self.family = cfg["family"]
        self.started = False
        self.n, self.nt = 0, 0

    def dst(self):
        self.n += 1
        return "v%d" % self.n

    def ty(self, lo=0, hi=2):
        gen = self.s["gen"]
        t = atoms(self.family, gen, gen.randint(lo, hi))
        if self.family == "rigid" and self.cfg.get("pro_names"):
            t = [[1, a[1]] for a in t]
        return t

    def box_spec(self, k):
        gen, family = self.s["gen"], self.family
        if family == "cat":
            return {"name": "f%d" % k, "dom": atoms(family, gen, 1), "cod": atoms(family, gen, 1)}
        return {"name": gen.choice(["f", "g"]) if gen.random() < 0.2 else "b%d" % k,
                "dom": self.ty(0, 2), "cod": self.ty(0, 2), "dagger": gen.random() < 0.15}

    def init_values(self):
        gen, cfg, family = self.s["gen"], self.cfg, self.family
        vals = []
        if family in ("monoidal", "rigid", "tensor", "circuit", "zx"):
            names = {"monoidal": ("x", "y"), "rigid": ("a", "b"), "tensor": ("2", "3"),
                     "circuit": ("qubit", "bit"), "zx": ("1",)}[family]
            for _ in range(gen.randint(1, 3)):
                if family == "rigid" and gen.random() < 0.6:
                    spec = B.gen_rigid(gen, gen.randint(1, cfg["nboxes"] + 2), names, cfg["maxw"])
                else:
                    spec = B.gen_monoidal(gen, gen.randint(0, cfg["nboxes"]), family, names, cfg["maxw"],
                                          0.5, 0.5, 0.25)
                vals.append({"kind": "spec", "spec": spec})
        if family == "cat":
            for _ in range(gen.randint(1, 3)):
                obs = [gen.choice("xyz") for _ in range(gen.randint(2, 5))]
                vals.append({"kind": "chain", "boxes": [
                    {"name": "f%d" % k, "dom": a, "cod": b} for k, (a, b) in enumerate(zip(obs, obs[1:]))]})
        for k in range(gen.randint(1, 4)):
            vals.append({"kind": "box", "box": self.box_spec(k)})
        if family != "cat":
            vals.append({"kind": "id", "ty": self.ty(0, 2)})
        else:
            vals.append({"kind": "id", "ty": gen.choice("xyz")})
        for _ in range(gen.randint(0, 3) + (2 if family == "circuit" else 0)):
            sp = self.special()
            if sp:
                vals.append(sp)
        for k, v in enumerate(vals):
            v["name"] = "p%d" % k
        return vals

    def special(self):
        gen, family = self.s["gen"], self.family
        if family == "biclosed":
            from sim.engines.grammar import gen_bty_bounded
            return {"kind": "special", "which": gen.choice(["FA", "BA", "FC", "BC", "FX", "BX", "Curry", "CurryL"]),
                    "abc": [gen_bty_bounded(gen, gen.choice([0, 1, 2]), 2, 3) for _ in range(3)]}
        if family == "cartesian":
            return {"kind": "special", "which": gen.choice(["Swap", "Copy", "Discard"]),
                    "n": gen.randint(0, 3), "m": gen.randint(0, 3)}
        if family == "zx":
            return {"kind": "special", "which": gen.choice(["Z", "X"]), "n": gen.randint(0, 3),
                    "m": gen.randint(0, 3), "phase": gen.choice([0, 0.25, 0.5])}
        if family == "tensor":
            return {"kind": "special", "which": "Spider", "n": gen.randint(0, 3), "m": gen.randint(0, 3),
                    "dim": gen.choice([2, 3])}
        if family == "rigid" and gen.random() < (0.6 if self.cfg.get("pro_names") else 0.1):
            return {"kind": "special", "which": "ProId", "n": gen.randint(1, 2)}
        if family == "rigid" and gen.random() < 0.3:
            return {"kind": "special", "which": "Plain", "name": gen.choice(["g", "h"]),
                    "dom": [gen.choice("ab") for _ in range(gen.randint(0, 2))],
                    "cod": [gen.choice("ab") for _ in range(gen.randint(0, 2))]}
        if family == "rigid":
            return {"kind": "special", "which": "Word", "name": gen.choice(["Alice", "loves", "Bob"]),
                    "ty": atoms("rigid", gen, gen.randint(1, 3)), "sym": gen.random() < 0.6}
        if family == "circuit":
            return {"kind": "special", "which": gen.choice(["H", "CX", "Rx", "Ket", "Bra", "Measure", "Discard",
                                                            "SWAP", "CRz", "Rx_sym", "CRz_sym", "Measure", "Measure_nd", "Measure_ob",
                                                            "Measure2", "Encode", "Encode_nc", "MixedState", "MixedBit",
                                                            "DiscardBit"]), "phase": gen.choice([0.25, 0.5])}
        return None

    def next_op(self, world):
        sched, gen, fault, cfg, family = self.s["sched"], self.s["gen"], self.s["fault"], self.cfg, self.family
        if not self.started:
            self.started = True
            return {"op": "init", "values": self.init_values()}
        names = sorted(world.pool)
        if not names:
            return None
        fired = world.counters.get("F5_fired", 0)
        if fired != getattr(self, "last_f5", 0) and self.family != "cat":
            # an operation has just been interrupted: probe what it may have left behind with
            # requests that must be refused (and, after that, with ordinary work)
            self.probe = 2
            self.last_f5 = fired
        if getattr(self, "probe", 0):
            self.probe -= 1
            a = sched.choice(names)
            if self.probe % 2:
                return self.construct_raw(True)
            return {"op": "binop", "f": "then", "a": a, "b": sched.choice(names), "dst": self.dst()}
        op = self.pick(world, names)
        if op is not None and fault.random() < cfg["p_interrupt"] and op["op"] not in ("init", "scribble"):
            op["interrupt_at"] = max(1, int(fault.choice([60, 400, 2000]) ** fault.random()))
        return op

    def composable(self, world, names, a):
        """names b with a.cod == b.dom (model side), for biasing towards legal compositions"""
        key = type_key(self.family, world.pool[a]["real"].cod)
        return [b for b in names if type_key(self.family, world.pool[b]["real"].dom) == key]

    def pick(self, world, names):
        sched, gen, cfg, family = self.s["sched"], self.s["gen"], self.cfg, self.family
        a = sched.choice(names)
        illegal = sched.random() < cfg["p_illegal"]
        r = sched.random()
        mono = family != "cat"
        n = len(world.pool[a]["real"])
        if sched.random() < cfg["p_scribble"]:
            return {"op": "scribble", "a": a, "what": sched.choice(["boxes", "offsets"])}
        if r < 0.22:
            f = sched.choice(["then", "then", "lshift"])
            if illegal:
                b = sched.choice(names)
            else:
                cands = self.composable(world, names, a)
                b = sched.choice(cands) if cands else sched.choice(names)
                if f == "lshift":
                    a, b = b, a
            return {"op": "binop", "f": f, "a": a, "b": b, "dst": self.dst()}
        if r < 0.30 and mono:
            return {"op": "binop", "f": "tensor", "a": a, "b": sched.choice(names), "dst": self.dst()}
        if r < 0.32:
            return {"op": "then_many", "args": [a] + [sched.choice(names) for _ in range(sched.randint(0, 3))],
                    "dst": self.dst()}
        if r < 0.33:
            b = sched.choice([n_ for n_ in names if fingerprint(world.pool[n_]["real"])[:2]
                              == fingerprint(world.pool[a]["real"])[:2]])
            return {"op": "sum", "a": a, "b": b, "c": sched.choice(names),
                    "how": sched.choice(["then", "tensor", "dagger"]), "zero": sched.random() < 0.3}
        if r < 0.45:
            f = sched.choice(["dagger", "dagger_method", "iter", "layers_slices", "bubble", "downgrade", "flatten",
                              "depth_width", "foliation", "foliation_flatten", "foliate_all", "normalize_all",
                              "normal_form", "transpose_l", "transpose_r", "subs_any", "lambdify_any"] + (
                                  ["circuit2zx", "init_and_discard", "tk_roundtrip", "grad", "subs"] * 2
                                  if family == "circuit" else []))
            return {"op": "unop", "f": f, "a": a, "dst": self.dst(), "left": sched.random() < 0.5}
        if r < 0.55:
            if illegal:
                step = sched.choice([2, 3, -2, 0])
            else:
                step = sched.choice([None, None, 1, -1, -1])
            i = sched.choice([None, sched.randint(-n - 1, n + 1)])
            j = sched.choice([None, sched.randint(-n - 1, n + 1)])
            return {"op": "slice", "a": a, "i": i, "j": j, "step": step, "dst": self.dst()}
        if r < 0.60:
            i = sched.randint(-n - 2, n + 1) if illegal else (sched.randrange(n) if n else 0)
            return {"op": "index", "a": a, "i": i, "dst": self.dst()}
        if r < 0.70 and mono:
            if illegal or n == 0:
                i, j = sched.randint(-2, n + 1), sched.randint(-2, n + 1)
            else:
                i = sched.randrange(n)
                j = max(0, min(n - 1, i + sched.choice([-2, -1, 1, 2])))
            return {"op": "interchange", "a": a, "i": i, "j": j, "left": sched.random() < 0.5, "dst": self.dst()}
        if r < 0.82 and mono:
            return self.construct(world, names, a, illegal)
        if r < 0.90 and family in ("cat", "monoidal", "rigid"):
            obs = sorted({"x", "y", "z", "a", "b"})
            return {"op": "functor", "a": a, "dst": self.dst(),
                    "ob": [[o, (sched.choice(obs) if family == "cat" else
                                [sched.choice(obs) for _ in range(sched.choice([0, 1, 1, 2]))])] for o in obs],
                    "as_dict": sched.random() < 0.5, "ar_style": sched.randint(0, 1),
                    "fail_at": sched.randint(1, 3) if sched.random() < 0.15 else None}
        if mono:
            live = sorted(t for t, v in world.tasks.items() if v["status"] == "live")
            if live and sched.random() < 0.7:
                t = sched.choice(live)
                if sched.random() < 0.1:
                    return {"op": "task_close", "task": t}
                return {"op": "task_next", "task": t, "dst": self.dst() if sched.random() < 0.3 else None}
            self.nt += 1
            return {"op": "task_start", "task": "t%d" % self.nt, "a": a,
                    "kind": sched.choice(["normalize", "foliate"]), "left": sched.random() < 0.5}
        return {"op": "unop", "f": "dagger", "a": a, "dst": self.dst()}

    def construct(self, world, names, a, illegal):
        sched, gen, family = self.s["sched"], self.s["gen"], self.family
        kinds = ["raw"]
        if family in ("monoidal", "rigid", "tensor", "circuit", "zx"):
            kinds += ["swap", "swap", "permutation", "permutation", "permute", "swap_box"]
        if family in ("rigid",):
            kinds += ["cups", "caps", "cup", "cap", "fa", "ba", "fc", "bc", "fx", "bx", "curry"]
        if family in ("tensor", "circuit"):
            kinds += ["fam_cups", "fam_caps"]
        if family == "circuit":
            kinds += ["random_tiling"]
        if family == "cartesian":
            kinds = ["permute"]
        if family == "biclosed":
            kinds = ["swap", "permutation"]
        kind = sched.choice(kinds)
        op = {"op": "construct", "kind": kind, "dst": self.dst()}
        if kind in ("swap", "swap_box"):
            lo, hi = (1, 1) if kind == "swap_box" and not illegal else (0, 3)
            op["l"], op["r"] = self.ty(lo, hi), self.ty(lo, hi)
        elif kind == "permutation":
            k = sched.randint(0, 4)
            perm = list(range(k))
            sched.shuffle(perm)
            if illegal and k:
                perm[sched.randrange(k)] = sched.randint(0, k)
            op["perm"] = perm
            op["dom"] = self.ty(k, k) if sched.random() < 0.7 else None
            if illegal and sched.random() < 0.5:
                op["dom"] = self.ty(k + 1, k + 1)
            if family == "biclosed" and op["dom"] is None:
                op["dom"] = self.ty(k, k)
        elif kind == "permute":
            k = len(world.pool[a]["real"].cod)
            perm = list(range(k))
            sched.shuffle(perm)
            if illegal and k:
                perm[0] = k
            op["a"], op["perm"] = a, perm
        elif kind in ("fam_cups", "fam_caps"):
            l = self.ty(0, 3)
            op["l"], op["r"] = l, list(reversed(l))
            if illegal and l:
                op["r"] = op["r"][1:]
        elif kind == "random_tiling":
            op.update({"n": sched.randint(1, 4), "depth": sched.randint(0, 3),
                       "gateset": [sched.choice(["H", "CX", "Rx", "Rz", "T", "CZ", "CX", "CCZ", "Discard"])
                                   for _ in range(sched.randint(1, 4))] + ["H"],
                       "decisions": [self.s["peer"].getrandbits(16) for _ in range(12)],
                       "seed": sched.choice([None, 420])})
        elif kind in ("cups", "caps", "cup", "cap"):
            k = 1 if kind in ("cup", "cap") and not illegal else sched.randint(0, 3)
            l = [[sched.choice("ab"), sched.choice([0, 0, 1, -1, 2])] for _ in range(k)]
            dz = sched.choice([1, -1])
            r = [[x[0], x[1] + dz] for x in reversed(l)]
            if illegal and r:
                q = sched.randrange(len(r))
                r[q] = [r[q][0], r[q][1] + sched.choice([1, -1, 2])] if sched.random() < 0.6 else \
                    [("a" if r[q][0] == "b" else "b"), r[q][1]]
            op["l"], op["r"] = l, r
        elif kind in ("fa", "ba", "fc", "bc", "fx", "bx"):
            def rt(k):
                return [[sched.choice("ab"), sched.choice([0, 0, 1, -1])] for _ in range(k)]
            a_, b_, c_ = rt(sched.randint(0, 2)), rt(sched.randint(1, 2)), rt(sched.randint(0, 2))
            adjl = lambda t: [[x[0], x[1] - 1] for x in reversed(t)]
            adjr = lambda t: [[x[0], x[1] + 1] for x in reversed(t)]
            if kind == "fa":      # left = a @ b.l, right = b
                op["tys"] = [a_ + adjl(b_), b_]
            elif kind == "ba":    # left = b, right = b.r @ a
                op["tys"] = [b_, adjr(b_) + a_]
            else:
                op["tys"] = [a_, b_, c_]
        elif kind == "curry":
            op["a"], op["n"], op["left"] = a, sched.randint(0, 2), sched.random() < 0.5
        elif kind == "raw":
            return self.construct_raw(illegal)
        return op

    def construct_raw(self, illegal):
        sched, gen, family = self.s["sched"], self.s["gen"], self.family
        op = {"op": "construct", "kind": "raw", "dst": self.dst()}
        if True:
            cls = family if family in ("monoidal", "rigid", "tensor", "circuit", "zx") else "monoidal"
            names_ = {"monoidal": ("x", "y"), "rigid": ("a", "b"), "tensor": ("2", "3"),
                      "circuit": ("qubit", "bit"), "zx": ("1",)}[cls]
            spec = B.gen_monoidal(gen, gen.randint(0, 4), cls, names_, 4, 0.5, 0.6, 0.2)
            if illegal and spec["boxes"]:
                how = sched.choice(["offset", "offset", "cod", "negative", "beyond"])
                k = sched.randrange(len(spec["boxes"]))
                if how == "offset":
                    spec["offsets"][k] += sched.choice([1, -1, 2])
                elif how == "negative":
                    spec["offsets"][k] = -sched.randint(1, 2)
                elif how == "beyond":
                    spec["offsets"][k] += 5
                else:
                    try:
                        cod = [list(x) for x in M.cod_of(B.spec_model(spec))]
                    except M.ModelError:
                        cod = []
                    spec["cod"] = cod + [[names_[0], 0]] if sched.random() < 0.5 or not cod else cod[1:]
            op["spec"] = spec
        return op


def shrink_op(op):
    if op.get("op") == "init":
        vals = op["values"]
        for k in reversed(range(len(vals))):
            cand = dict(op)
            cand["values"] = vals[:k] + vals[k + 1:]
            yield cand
        for k, v in enumerate(vals):
            if v["kind"] == "spec":
                for sp in B.shrink_spec(v["spec"]):
                    cand = dict(op)
                    cand["values"] = vals[:k] + [dict(v, spec=sp)] + vals[k + 1:]
                    yield cand
    if op.get("op") == "construct" and op.get("kind") == "raw":
        for sp in B.shrink_spec(op["spec"]):
            cand = dict(op)
            cand["spec"] = sp
            yield cand
    if "interrupt_at" in op:
        cand = dict(op)
        del cand["interrupt_at"]
        yield cand
