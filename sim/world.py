"""Import the tree under test with hooks on, and install the in-library
invariant monitor (DESIGN.md 3.3).  Nothing here draws random numbers."""
import os
import sys

REPO = os.environ.get("VERIF_REPO", "/repo")
_loaded = {}


class MonitorState:
    """Side list of monitor firings; the simulator inspects it after every step."""
    def __init__(self):
        self.fired = []          # list of (message, class name)
        self.calls = 0           # constructions seen
        self.fast = 0            # constructions re-scanned
        self.enabled = True
        self.busy = False
        self.partial = 0
        self.discarded = 0
        self.raise_on_fire = False
        self.skip_biclosed = False


MON = MonitorState()


def load():
    """Import discopy from REPO's working tree with DISCOPY_VERIF=1."""
    if _loaded:
        return _loaded["discopy"]
    os.environ["DISCOPY_VERIF"] = "1"
    os.environ.setdefault("MPLBACKEND", "Agg")
    repo = os.path.realpath(REPO)
    sys.path.insert(0, repo)
    for name in list(sys.modules):
        if name == "discopy" or name.startswith("discopy."):
            raise RuntimeError("discopy imported before sim.world.load()")
    import discopy
    here = os.path.realpath(discopy.__file__)
    if not here.startswith(repo + os.sep):
        raise RuntimeError("discopy imported from %s, not from %s" % (here, repo))
    from discopy import _verif
    if not _verif.ENABLED:
        raise RuntimeError("DISCOPY_VERIF hook is not enabled")
    _loaded["discopy"] = discopy
    install_monitor()
    # import everything the engines will touch NOW, in the pristine parent: children are
    # forked per run and would otherwise pay for these imports again and again
    import importlib
    for name in ("numpy", "sympy", "pytket", "pytket.passes", "pytket.backends.backendresult",
                 "pytket.utils.outcomearray", "pytket.circuit", "discopy.quantum.tk", "discopy.quantum.zx",
                 "discopy.quantum.gates", "discopy.quantum.circuit", "discopy.quantum.cqmap",
                 "discopy.grammar.cfg", "discopy.grammar.pregroup", "discopy.grammar.ccg",
                 "discopy.biclosed", "discopy.cartesian", "discopy.tensor", "discopy.rewriting",
                 "sim.model", "sim.build", "sim.tksim", "sim.engines.rewrite", "sim.engines.session",
                 "sim.engines.backend", "sim.engines.grammar"):
        try:
            importlib.import_module(name)
        except Exception:       # an engine that needs it will fail loudly later
            pass
    return discopy


def _ty_eq(a, b):
    return a == b


def _objs(ty):
    return list(ty.objects)


def scan_problem(d):
    """Re-derive the layer view of a monoidal diagram from dom, boxes, offsets
    by the defining scan and compare with its layers and cod.  Uses the PUBLIC
    view only (dom, cod, boxes, offsets, layers), so that another internal
    representation of diagrams does not matter.  Returns None when consistent,
    else a short message.  Types are compared as their lists of objects."""
    dom, cod = d.dom, d.cod
    boxes, offsets, layers = d.boxes, d.offsets, d.layers
    rows = [tuple(layer) for layer in layers.boxes]
    if not len(boxes) == len(offsets) == len(rows):
        return "lengths differ: boxes=%d offsets=%d layers=%d" % (
            len(boxes), len(offsets), len(rows))
    if not same_type(layers.dom, dom):
        return "layers.dom != dom"
    if not same_type(layers.cod, cod):
        return "layers.cod != cod"
    scan = _objs(dom)
    for k in range(len(boxes)):
        box, off = boxes[k], offsets[k]
        if not isinstance(off, int) or off < 0:
            return "offset %d is %r" % (k, off)
        bdom = _objs(box.dom)
        n = len(bdom)
        if off + n > len(scan):
            return "box %d does not fit at offset %d" % (k, off)
        if scan[off:off + n] != bdom:
            return "box %d does not find its domain at its offset" % k
        left, lbox, right = rows[k]
        if lbox is not box:
            try:
                other = bool(lbox != box)
            except ValueError:          # == on numpy payloads is not a boolean
                other = repr(lbox) != repr(box)
            if other:
                return "layer %d holds another box" % k
        if _objs(left) != scan[:off]:
            return "layer %d left wires disagree with the scan" % k
        if _objs(right) != scan[off + n:]:
            return "layer %d right wires disagree with the scan" % k
        scan[off:off + n] = _objs(box.cod)
    if scan != _objs(cod):
        return "scan ends on another type than cod %s" % (cod, )
    return None


def same_type(a, b):
    """Type equality as lists of objects where both are monoidal types (a slash
    type is not == to the one-object Ty that wraps it, see DESIGN 13.2 on D8),
    plain == for categorical objects."""
    if hasattr(a, "objects") and hasattr(b, "objects"):
        return list(a.objects) == list(b.objects)
    return a == b


def arrow_problem(a):
    """cat.Arrow built with _scan=False: boxes must compose from dom to cod."""
    boxes = a.boxes
    scan = a.dom
    for k, box in enumerate(boxes):
        if box is a:
            return None if (len(boxes) == 1) else "box contains itself"
        if not same_type(box.dom, scan):
            return "arrow box %d does not compose" % k
        scan = box.cod
    if not same_type(scan, a.cod):
        return "arrow ends on %s, not on cod %s" % (scan, a.cod)
    return None


def install_monitor():
    from discopy import _verif, monoidal, cat
    diagram_init_code = monoidal.Diagram.__init__.__code__
    arrow_init_code = cat.Arrow.__init__.__code__
    try:
        from discopy import biclosed
    except Exception:       # pragma: no cover
        biclosed = None

    def on_construct(value):
        if not MON.enabled:
            return
        caller = sys._getframe(1).f_code
        MON.calls += 1
        if isinstance(value, monoidal.Diagram):
            if caller is not diagram_init_code:
                return          # still inside Diagram.__init__ (Arrow part)
            if MON.skip_biclosed and biclosed is not None \
                    and isinstance(value, biclosed.Diagram):
                return
            MON.fast += 1
            if MON.busy:
                return          # a diagram built while the monitor itself reads a lazily built view
            MON.busy = True
            try:
                msg = scan_problem(value)
            except AttributeError:
                MON.partial += 1     # not fully initialised yet (another constructor layout): no verdict
                return
            except Exception as err:    # a scan that cannot even run is a firing
                msg = "monitor scan raised %s: %s" % (type(err).__name__, err)
            finally:
                MON.busy = False
        elif caller is arrow_init_code:
            if isinstance(value, cat.Box):
                return
            MON.fast += 1
            try:
                msg = arrow_problem(value)
            except AttributeError:
                MON.partial += 1
                return
            except Exception as err:
                msg = "monitor scan raised %s: %s" % (type(err).__name__, err)
        else:
            return
        if msg:
            import weakref
            try:
                ref = weakref.ref(value)
            except TypeError:
                ref = (lambda v=value: v)
            MON.fired.append((msg, type(value).__module__ + "." + type(value).__name__, ref))
            if MON.raise_on_fire:
                raise _verif.InvariantViolation(msg)
    _verif.on_construct = on_construct


def surviving_firings():
    """Firings whose ill-typed object is still alive, i.e. was not a temporary that the
    operation built and threw away: only those can have been handed back, yielded, cached or
    stored.  (The statement is about diagrams obtained through the API.)"""
    if not MON.fired:
        return []
    import gc
    gc.collect()
    alive = [(f[0], f[1]) for f in MON.fired if f[2]() is not None]
    MON.discarded += len(MON.fired) - len(alive)
    MON.fired.clear()
    return alive


def tree_id():
    """git revision of REPO plus a hash of the working-tree diff of discopy/."""
    import subprocess, hashlib
    try:
        rev = subprocess.run(["git", "-C", REPO, "rev-parse", "HEAD"],
                             capture_output=True, text=True, timeout=20).stdout.strip()
        diff = subprocess.run(["git", "-C", REPO, "diff", "HEAD", "--", "discopy"],
                              capture_output=True, timeout=20).stdout
        return {"rev": rev, "diff_sha": hashlib.sha256(diff).hexdigest()[:16]}
    except Exception:
        return {"rev": "unknown", "diff_sha": "unknown"}
