"""Simulator core: seeds and PRNG streams, event log and digest, violations,
replay files, minimisation (ddmin + per-op shrinking), sharded batches,
evidence files, known findings.  See DESIGN.md section 3."""
import collections
import hashlib
import json
import os
import random
import signal
import sys
import time
import traceback

VERIF_DIR = os.path.dirname(os.path.dirname(os.path.abspath(__file__)))
_OUT = os.environ.get("VERIF_OUT") or VERIF_DIR     # selftests redirect outputs to a scratch dir
REPLAY_DIR = os.path.join(_OUT, "replays")
EVIDENCE_DIR = os.path.join(_OUT, "evidence")
KNOWN_FILE = os.path.join(VERIF_DIR, "known_findings.json")

STREAMS = ("cfg", "sched", "gen", "fault", "peer")


def h64(*parts):
    s = "\x1f".join(str(p) for p in parts).encode()
    return int.from_bytes(hashlib.sha256(s).digest()[:8], "big")


def derive_seed(verif_seed, prop, run_index):
    return h64("run", verif_seed, prop, run_index)


class Streams(dict):
    """Independent PRNG streams of one run, all derived from the run seed."""
    def __init__(self, run_seed):
        super().__init__()
        for name in STREAMS:
            self[name] = random.Random(h64("stream", run_seed, name))


def jdump(obj):
    return json.dumps(obj, sort_keys=True, separators=(",", ":"), default=str)


class EventLog:
    """One line per step.  Never draws from a PRNG, never reads a clock."""
    def __init__(self, keep=False):
        self.h = hashlib.sha256()
        self.n = 0
        self.keep = keep
        self.lines = []

    def add(self, op, outcome):
        line = "%d %s -> %s" % (self.n, jdump(op), outcome)
        self.h.update(line.encode())
        self.h.update(b"\n")
        if self.keep:
            self.lines.append(line)
        self.n += 1

    def digest(self):
        return self.h.hexdigest()[:24]


class Violation(Exception):
    """The property does not hold on the explored history."""
    def __init__(self, kind, message, details=None):
        super().__init__("%s: %s" % (kind, message))
        self.kind, self.message, self.details = kind, message, details or {}


class HarnessError(Exception):
    """The harness itself is wrong (never reported as a VIOLATION)."""


class HarnessTimeout(BaseException):
    pass


class Budget(BaseException):
    """Raised by the line-event tracer when a deterministic budget is exhausted."""


class Interrupt(KeyboardInterrupt):
    """Injected interruption (fault F5)."""


# ---------------------------------------------------------------------------
# line-event tracer: fault F5 (interrupt at the n-th line inside the library)
# and deterministic budgets for calls that may not terminate
# ---------------------------------------------------------------------------

class LineTracer:
    """Counts 'line' events in frames whose code lives under `prefix`.
    mode 'count': just count.  mode 'interrupt': raise Interrupt at line n.
    mode 'budget': raise Budget after n lines."""
    def __init__(self, prefix, mode="count", n=0):
        self.prefix, self.mode, self.n = prefix, mode, n
        self.count = 0
        self.fired = False

    def _local(self, frame, event, arg):
        if event == "line":
            self.count += 1
            if self.n and self.count >= self.n and not self.fired:
                self.fired = True
                if self.mode == "interrupt":
                    raise Interrupt("injected at line event %d" % self.count)
                if self.mode == "budget":
                    raise Budget("line budget %d exhausted" % self.n)
        return self._local

    def _global(self, frame, event, arg):
        if event == "call" and frame.f_code.co_filename.startswith(self.prefix):
            return self._local
        return None

    def __enter__(self):
        self._old = sys.gettrace()
        sys.settrace(self._global)
        return self

    def __exit__(self, *exc):
        sys.settrace(self._old)
        return False


# ---------------------------------------------------------------------------
# worlds and drivers (engine interface)
# ---------------------------------------------------------------------------

class World:
    """Base class: slots of real values with models and fingerprints, lazy
    tasks, counters, probes and distinct-case fingerprints."""
    def __init__(self, prop, cfg):
        self.prop, self.cfg = prop, cfg
        self.counters = collections.Counter()
        self.distinct = set()
        self.states = set()

    def note(self, key, n=1):
        self.counters[key] += n

    def case(self, *parts):
        self.distinct.add(h64(*parts))

    def monitor_after_op(self, op):
        """Engines other than S: a firing of the in-library monitor is counted;
        it becomes a C01 violation when this run is a slice of the C01 check."""
        from sim import world as W
        if W.MON.fired and getattr(self, "lib_raised", False):
            # the request ended in an exception: a temporary that was built before the library
            # noticed and refused is not a diagram that was handed back
            self.note("monitor_fired_before_a_refusal", len(W.MON.fired))
            W.MON.fired.clear()
        alive = W.surviving_firings()
        if alive:
            msg, cls = alive[0]
            n = len(alive)
            self.note("monitor_fired", n)
            if self.cfg.get("monitor_is_violation"):
                raise Violation("C01.monitor", "while executing %s the library built an ill-typed %s on its "
                                "trusted fast path: %s (%d firings)" % (op.get("op"), cls, msg, n))
            return msg, cls
        return None

    def apply(self, op):          # pragma: no cover - overridden
        raise NotImplementedError


def isolated(fn, *args):
    """Run fn(*args) in a freshly forked child of this (pristine) process and
    return its picklable result.  The parent imports the library but never
    executes a library operation itself, so every run, every minimisation
    candidate and every replay starts from the same library state: module-level
    state that a (mutated) library keeps between calls cannot leak from one run
    into the next, and a replay in a fresh interpreter sees what the run saw."""
    import pickle
    r, w = os.pipe()
    pid = os.fork()
    if pid == 0:
        code = 0
        try:
            os.close(r)
            try:
                payload = ("ok", fn(*args))
            except HarnessTimeout:
                payload = ("timeout", None)
            except BaseException as err:
                payload = ("err", "%s: %s" % (type(err).__name__, err), traceback.format_exc())
            with os.fdopen(w, "wb") as f:
                pickle.dump(payload, f, protocol=pickle.HIGHEST_PROTOCOL)
        except BaseException:
            code = 1
        finally:
            os._exit(code)
    os.close(w)
    chunks = []
    with os.fdopen(r, "rb") as f:
        while True:
            data = f.read(1 << 20)
            if not data:
                break
            chunks.append(data)
    os.waitpid(pid, 0)
    if not chunks:
        return ("err", "child died without a result", "")
    return pickle.loads(b"".join(chunks))


def execute(engine, prop, cfg, ops, log=None):
    """Re-execute an explicit op list in a fresh world.  Returns
    (world, violation or None, index of failing op or None)."""
    world = engine.World(prop, cfg)
    for k, op in enumerate(ops):
        try:
            out = world.apply(op)
        except Violation as v:
            return world, v, k
        if log is not None:
            log.add(op, out)
    try:
        world.finish()
    except Violation as v:
        return world, v, len(ops)
    return world, None, None


def run_one(engine, prop, verif_seed, run_index, tier, cfg_override=None, keep_log=False):
    """One simulated run: a pure function of (tree, prop, verif_seed, run_index, tier)."""
    run_seed = derive_seed(verif_seed, prop, run_index)
    streams = Streams(run_seed)
    cfg = engine.make_config(prop, streams["cfg"], tier)
    if cfg_override:
        cfg.update(cfg_override)
    world = engine.World(prop, cfg)
    driver = engine.Driver(prop, cfg, streams)
    log = EventLog(keep=keep_log)
    log.add({"run_seed": run_seed, "cfg": cfg}, "start")
    ops, violation = [], None
    try:
        for _ in range(cfg.get("max_steps", 100)):
            op = driver.next_op(world)
            if op is None:
                break
            ops.append(op)
            out = world.apply(op)
            log.add(op, out)
        world.finish()
    except Violation as v:
        violation = v
        log.add({"violation": v.kind}, v.message[:200])
    schedule = h64(*[(op.get("op"), op.get("task"), op.get("src"), op.get("a"), op.get("b"),
                      tuple(op.get("srcs", ())), bool(op.get("interrupt_at")),
                      (op.get("plan") or {}).get("fail_at")) for op in ops])
    res = {
        "run_index": run_index, "run_seed": run_seed, "digest": log.digest(), "schedule": schedule,
        "steps": len(ops), "counters": dict(world.counters),
        "distinct": world.distinct, "states": world.states, "cfg": cfg,
        "violation": None, "ops": ops if (keep_log or run_index < 3) else None,
        "log": log.lines if keep_log else None,
    }
    if violation is not None:
        res["violation"] = {"kind": violation.kind, "message": violation.message,
                            "details": violation.details, "step": len(ops) - 1}
        res["ops"] = ops
    return res


# ---------------------------------------------------------------------------
# minimisation
# ---------------------------------------------------------------------------

class _V:
    """picklable stand-in for a Violation coming back from an isolated execution"""
    def __init__(self, kind, message, details):
        self.kind, self.message, self.details = kind, message, details


def _execute_plain(engine, prop, cfg, ops):
    signal.signal(signal.SIGALRM, _alarm)
    signal.setitimer(signal.ITIMER_REAL, _RUN_LIMIT_S)
    _, v, k = execute(engine, prop, cfg, ops)
    signal.setitimer(signal.ITIMER_REAL, 0)
    if v is None:
        return None
    return (v.kind, v.message, _plain(v.details), k)


def _plain(obj):
    return json.loads(json.dumps(obj, default=str))


def execute_isolated(engine, prop, cfg, ops):
    """(violation or None, failing op index) of an explicit op list, in a fresh child."""
    status, *rest = isolated(_execute_plain, engine, prop, cfg, ops)
    if status != "ok":
        raise HarnessError("isolated execution failed: %s" % (rest[0] if rest else status))
    if rest[0] is None:
        return None, None
    kind, message, details, k = rest[0]
    return _V(kind, message, details), k


def _fails_same(engine, prop, cfg, ops, kind):
    try:
        v, k = execute_isolated(engine, prop, cfg, ops)
    except HarnessError:
        return None
    if v is not None and v.kind == kind:
        return (v, k)
    return None


def minimise(engine, prop, cfg, ops, kind, wall_s=60.0, max_candidates=2000):
    """ddmin over the op list, then per-op argument shrinking.  Keeps a
    candidate only if the same violation kind recurs."""
    t0, tried = time.time(), 0
    best = list(ops)
    got = _fails_same(engine, prop, cfg, best, kind)
    if got is None:
        return best, None, tried
    best = best[:got[1] + 1]

    def budget_ok():
        return time.time() - t0 < wall_s and tried < max_candidates

    n = 2
    while len(best) >= 2 and budget_ok():
        chunk = max(1, len(best) // n)
        reduced = False
        for start in range(0, len(best), chunk):
            if not budget_ok():
                break
            cand = best[:start] + best[start + chunk:]
            if not cand:
                continue
            tried += 1
            r = _fails_same(engine, prop, cfg, cand, kind)
            if r is not None:
                best = cand[:r[1] + 1]
                n = max(n - 1, 2)
                reduced = True
                break
        if not reduced:
            if chunk == 1:
                break
            n = min(len(best), n * 2)
    shrink = getattr(engine, "shrink_op", None)
    progress = shrink is not None
    while progress and budget_ok():
        progress = False
        for k in range(len(best)):
            for smaller in shrink(best[k]):
                if not budget_ok():
                    break
                tried += 1
                cand = best[:k] + [smaller] + best[k + 1:]
                r = _fails_same(engine, prop, cfg, cand, kind)
                if r is not None:
                    best = cand[:r[1] + 1]
                    progress = True
                    break
            if progress:
                break
    final = _fails_same(engine, prop, cfg, best, kind)
    return best, final, tried


def write_replay(prop, engine_name, verif_seed, res, ops, violation, minimised, tree, suffix="",
                 world_prop=None):
    os.makedirs(REPLAY_DIR, exist_ok=True)
    tag = prop if world_prop in (None, prop) else "%s-%s" % (prop, world_prop)
    path = os.path.join(REPLAY_DIR, "%s-%d-%d%s.json" % (
        tag, verif_seed, res["run_index"], suffix))
    doc = {
        "property": prop, "world_prop": world_prop or prop, "engine": engine_name, "verif_seed": verif_seed,
        "run_index": res["run_index"], "run_seed": res["run_seed"],
        "config": res["cfg"], "ops": ops, "violation": violation,
        "minimised": minimised, "tree": tree,
    }
    with open(path, "w") as f:
        json.dump(doc, f, indent=1, sort_keys=True, default=str)
    return path


# ---------------------------------------------------------------------------
# known findings
# ---------------------------------------------------------------------------

def load_known():
    if not os.path.exists(KNOWN_FILE):
        return []
    with open(KNOWN_FILE) as f:
        return json.load(f)["findings"]


# ---------------------------------------------------------------------------
# sharded batches
# ---------------------------------------------------------------------------

_RUN_LIMIT_S = 300


def _alarm(signum, frame):
    raise HarnessTimeout()


def _run_one_child(engine, prop, verif_seed, idx, tier, cfg_override):
    signal.signal(signal.SIGALRM, _alarm)
    signal.setitimer(signal.ITIMER_REAL, _RUN_LIMIT_S)
    try:
        return run_one(engine, prop, verif_seed, idx, tier, cfg_override)
    finally:
        signal.setitimer(signal.ITIMER_REAL, 0)


def _worker_chunk(args):
    engine_name, prop, verif_seed, indices, tier, cfg_override, do_min = args
    import importlib
    import faulthandler
    engine = importlib.import_module("sim.engines." + engine_name)
    out = []
    signal.signal(signal.SIGALRM, _alarm)
    prepare = getattr(engine, "prepare", None)
    if prepare:
        prepare()
    for idx in indices:
        # the child arms its own timer; this is the last resort if the child cannot be interrupted
        faulthandler.dump_traceback_later(_RUN_LIMIT_S + 60, exit=True)
        t_run = time.time()
        try:
            status, *rest = isolated(_run_one_child, engine, prop, verif_seed, idx, tier, cfg_override)
        finally:
            faulthandler.cancel_dump_traceback_later()
        if status == "timeout":
            out.append({"run_index": idx, "harness": "HARNESS-TIMEOUT", "trace": ""})
            continue
        if status != "ok":           # harness bug: reported apart from VIOLATION
            out.append({"run_index": idx, "harness": "HARNESS-ERROR " + str(rest[0]),
                        "trace": rest[1] if len(rest) > 1 else ""})
            continue
        res = rest[0]
        res["wall"] = time.time() - t_run
        if res["violation"] is not None:
            # a violation that already carries a listed finding's trigger and symptom is matched
            # as it is; only the others are worth the (expensive) minimisation
            fm = getattr(engine, "finding_matches", None)
            res["pre_matched"] = None
            for e in (load_known() if fm else []):
                if e["status"] == "known" and e["property"] == res["violation"]["kind"].split(".")[0] \
                        and fm(e["signature"], res["ops"], res["violation"]):
                    res["pre_matched"] = e["id"]
                    break
        if res["violation"] is not None and not res.get("pre_matched") and do_min and (
                do_min is True or res["violation"]["kind"].startswith(do_min)):
            try:
                ops, final, tried = minimise(
                    engine, prop, res["cfg"], res["ops"], res["violation"]["kind"])
                if final is not None:
                    v, k = final
                    res["min_ops"] = ops
                    res["min_violation"] = {"kind": v.kind, "message": v.message,
                                            "details": v.details, "step": k}
                    res["min_tried"] = tried
                else:
                    res["min_ops"] = None
            except HarnessTimeout:
                res["min_ops"] = None
            except Exception as err:
                res["min_ops"] = None
                res["min_error"] = "%s: %s" % (type(err).__name__, err)
        out.append(res)
    return out


def run_batch(engine_name, prop, verif_seed, n_runs, tier, wall_cap_s, workers=None,
              cfg_override=None, chunk=None, first_index=0, max_violations=3, do_min=True):
    """Run n_runs simulated runs over a fork pool.  Returns an aggregate dict."""
    from concurrent.futures import ProcessPoolExecutor, wait, FIRST_COMPLETED
    import multiprocessing
    workers = workers or min(16, os.cpu_count() or 1)
    chunk = chunk or max(1, min(10, n_runs // (workers * 4) or 1))
    t0 = time.time()
    agg = {
        "runs": 0, "steps": 0, "counters": collections.Counter(), "distinct": set(),
        "states": set(), "digests": {}, "violations": [], "harness": [],
        "samples": [], "submitted": 0, "wall_capped": False, "slowest": [], "schedules": set(),
    }
    ctx = multiprocessing.get_context("fork")
    indices = list(range(first_index, first_index + n_runs))
    chunks = [indices[i:i + chunk] for i in range(0, len(indices), chunk)]
    pending, nxt = set(), 0
    with ProcessPoolExecutor(max_workers=workers, mp_context=ctx) as pool:
        try:
            while nxt < len(chunks) or pending:
                while nxt < len(chunks) and len(pending) < workers * 2:
                    if time.time() - t0 > wall_cap_s or len([
                            v for v in agg["violations"]
                            if not v.get("pre_matched")      # listed findings do not end the batch
                            and (do_min is True or v["violation"]["kind"].startswith(do_min))]) >= max_violations:
                        agg["wall_capped"] = time.time() - t0 > wall_cap_s
                        nxt = len(chunks)
                        break
                    pending.add(pool.submit(_worker_chunk, (
                        engine_name, prop, verif_seed, chunks[nxt], tier, cfg_override, do_min)))
                    agg["submitted"] += len(chunks[nxt])
                    nxt += 1
                if not pending:
                    break
                done, pending = wait(pending, timeout=_RUN_LIMIT_S * 3,
                                     return_when=FIRST_COMPLETED)
                if not done:
                    agg["harness"].append({"harness": "HARNESS-TIMEOUT pool stalled"})
                    for p in pending:
                        p.cancel()
                    break
                for fut in done:
                    for res in fut.result():
                        if "harness" in res:
                            agg["harness"].append(res)
                            continue
                        agg["runs"] += 1
                        agg["steps"] += res["steps"]
                        for key, val in res["counters"].items():
                            if key.endswith("_max"):
                                agg["counters"][key] = max(agg["counters"][key], val)
                            else:
                                agg["counters"][key] += val
                        agg["distinct"] |= res["distinct"]
                        agg["states"] |= res["states"]
                        agg["digests"][res["run_index"]] = res["digest"]
                        agg["schedules"].add(res.get("schedule"))
                        agg["slowest"] = sorted(agg["slowest"] + [(round(res.get("wall", 0), 2),
                                                                   res["run_index"])])[-5:]
                        if res["violation"] is not None:
                            agg["violations"].append(res)
                        if res.get("ops") is not None and len(agg["samples"]) < 3 \
                                and res["violation"] is None:
                            agg["samples"].append({"run_index": res["run_index"],
                                                   "ops": res["ops"][:12]})
        except Exception as err:
            agg["harness"].append({"harness": "HARNESS-ERROR pool %s: %s" % (
                type(err).__name__, err), "trace": traceback.format_exc()})
    agg["wall_s"] = time.time() - t0
    return agg


def batch_digest(agg):
    h = hashlib.sha256()
    for k in sorted(agg["digests"]):
        h.update(("%d:%s\n" % (k, agg["digests"][k])).encode())
    return h.hexdigest()[:24]


def write_evidence(prop, tier, seed, coverage, assumptions, wall_s, violations):
    os.makedirs(EVIDENCE_DIR, exist_ok=True)
    doc = {
        "property_id": prop, "tier": tier, "seed": seed, "level": "exploration",
        "coverage": coverage, "assumptions": assumptions,
        "wall_s": round(wall_s, 2), "violations": violations,
    }
    path = os.path.join(EVIDENCE_DIR, prop + ".json")
    tmp = path + ".tmp"
    with open(tmp, "w") as f:
        json.dump(doc, f, indent=1, sort_keys=True, default=str)
    os.replace(tmp, path)
    return path
