"""M3: exact simulator of tket circuits (branching on measurements), the
harness's own evaluator of recorded classical post-processing, and SimBackend,
the simulated remote backend peer (DESIGN.md 4 and 5.5).

Gate matrices come from pytket's own Op.get_unitary(); everything else
(branching, classical bits, post-selection, scaling, classical gates) is
written here and never calls discopy's evaluation."""
import collections

import numpy as np


class BackendFailure(RuntimeError):
    """Injected peer failure (fault F4')."""


def simulate(tkc):
    """Exact distribution over ALL classical bits of a tket circuit, as an
    array of shape (2,)*n_bits (shape (1,) without bits).  Mid-circuit and
    repeated measurements are handled by branching."""
    nq, nb = tkc.n_qubits, len(tkc.bits)
    qindex = {q: k for k, q in enumerate(sorted(tkc.qubits))}
    bindex = {b: k for k, b in enumerate(sorted(tkc.bits))}
    psi0 = np.zeros((2,) * nq if nq else (1,), dtype=complex)
    psi0[(0,) * (nq or 1)] = 1
    branches = [((0,) * nb, psi0)]
    for cmd in tkc.get_commands():
        name = cmd.op.type.name
        qs = [qindex[q] for q in cmd.qubits]
        if name == "Measure":
            q, b = qs[0], bindex[cmd.bits[0]]
            new = []
            for bits, psi in branches:
                for v in (0, 1):
                    idx = [slice(None)] * nq
                    idx[q] = v
                    if not np.any(psi[tuple(idx)]):
                        continue
                    proj = np.zeros_like(psi)
                    proj[tuple(idx)] = psi[tuple(idx)]
                    new.append((bits[:b] + (v,) + bits[b + 1:], proj))
            branches = new
            continue
        if name == "Barrier":
            continue
        k = len(qs)
        U = np.asarray(cmd.op.get_unitary()).reshape((2,) * (2 * k))
        new = []
        for bits, psi in branches:
            out = np.tensordot(U, psi, (list(range(k, 2 * k)), qs))
            out = np.moveaxis(out, list(range(k)), qs)
            new.append((bits, out))
        branches = new
    P = np.zeros((2,) * nb if nb else (1,))
    for bits, psi in branches:
        P[bits if nb else (0,)] += np.vdot(psi, psi).real
    return P


def selfcheck(rng, n=25):
    """Validate `simulate`'s tensor-index plumbing against pytket's own
    get_statevector on measurement-free circuits, then with final measurements."""
    import pytket
    for _ in range(n):
        nq = rng.randint(1, 4)
        c = pytket.Circuit(nq, nq)
        for _g in range(rng.randint(1, 8)):
            g = rng.choice(["H", "S", "T", "X", "Y", "Z", "Rx", "Rz", "CX", "CZ", "CRz", "SWAP"])
            if g in ("H", "S", "T", "X", "Y", "Z"):
                getattr(c, g)(rng.randrange(nq))
            elif g in ("Rx", "Rz"):
                getattr(c, g)(rng.choice([0.25, 0.3, -0.7, 1.1]), rng.randrange(nq))
            elif nq >= 2:
                a, b = rng.sample(range(nq), 2)
                if g == "CRz":
                    c.CRz(rng.choice([0.25, 0.3, -0.7]), a, b)
                else:
                    getattr(c, g)(a, b)
        sv = np.asarray(c.get_statevector()).reshape((2,) * nq)
        for q in range(nq):
            c.Measure(q, q)
        P = simulate(c)
        if not np.allclose(P, np.abs(sv) ** 2, atol=1e-12):
            return False
    return True


# ---------------------------------------------------------------------------
# harness evaluation of recorded classical post-processing
# ---------------------------------------------------------------------------

def classical_apply(P, box, off):
    """Push a distribution P (shape (2,)*n) through one classical box at
    wire `off`.  Uses only the box's own array / kind."""
    n = P.ndim if P.shape != (1,) else 0
    if n == 0:
        P = P.reshape(())
    ndom, ncod = len(box.dom), len(box.cod)
    cname = type(box).__name__
    if cname == "Swap" or (hasattr(box, "left") and hasattr(box, "right") and ndom == 2 and ncod == 2
                            and not hasattr(box, "array")):
        out = np.swapaxes(P, off, off + 1)
    else:
        arr = np.asarray(box.array, dtype=float).reshape((2,) * (ndom + ncod))
        out = np.tensordot(P, arr, (list(range(off, off + ndom)), list(range(ndom))))
        # tensordot puts the new axes last: move them to position off
        out = np.moveaxis(out, list(range(out.ndim - ncod, out.ndim)), list(range(off, off + ncod)))
    if out.ndim == 0:
        out = out.reshape((1,))
    return out


def classical_eval(P, circuit):
    """Evaluate a discopy classical circuit (post_processing) on distribution P."""
    for box, off in zip(circuit.boxes, circuit.offsets):
        P = classical_apply(P, box, off)
    return P


def tk_semantics(tkc):
    """Distribution over output bits of an exported circuit: M3, post-selected
    on the recorded post_selection, scaled by the recorded scalar, pushed
    through the recorded post_processing."""
    P = simulate(tkc)
    nb = len(tkc.bits)
    if nb:
        idx = tuple(tkc.post_selection.get(i, slice(None)) for i in range(nb))
        P = P[idx]
    P = np.asarray(P, dtype=complex if isinstance(tkc.scalar, complex) else float) * tkc.scalar
    k = nb - len(tkc.post_selection)
    P = np.asarray(P).reshape((2,) * k if k else (1,))
    if len(tkc.post_processing):
        P = classical_eval(P, tkc.post_processing)
    return P


# ---------------------------------------------------------------------------
# tket circuits from explicit specs (the peer's own programs, for import)
# ---------------------------------------------------------------------------

def build_tk(spec):
    import pytket
    if spec.get("split"):
        # the same circuit on named registers: qubits a[..] then b[..], bits c[..] then d[..]
        # (what a circuit read from OpenQASM with several qreg/creg looks like); unit k of the
        # spec is the k-th unit in tket's own (sorted) order
        from pytket.circuit import Qubit, Bit
        kq, kb = spec["split"]
        Q = [Qubit("a", i) if i < kq else Qubit("b", i - kq) for i in range(spec["nq"])]
        Bt = [Bit("c", i) if i < kb else Bit("d", i - kb) for i in range(spec["nb"])]
        c = pytket.Circuit()
        for u in Q:
            c.add_qubit(u)
        for u in Bt:
            c.add_bit(u)
    else:
        c = pytket.Circuit(spec["nq"], spec["nb"])
        Q, Bt = list(range(spec["nq"])), list(range(spec["nb"]))
    for g in spec["gates"]:
        name = g[0]
        if name in ("Rx", "Rz"):
            getattr(c, name)(g[1], Q[g[2]])
        elif name == "CRz":
            c.CRz(g[1], Q[g[2]], Q[g[3]])
        elif name == "Measure":
            c.Measure(Q[g[1]], Bt[g[2]])
        else:
            getattr(c, name)(*[Q[x] for x in g[1:]])
    return c


def _pair(rng, nq):
    """two distinct units; half of the time as far apart as possible (either order)"""
    if rng.random() < 0.5:
        a, b = 0, nq - 1
        if nq > 2 and rng.random() < 0.5:
            a, b = rng.choice([(0, nq - 2), (1, nq - 1)])
        return (a, b) if rng.random() < 0.5 else (b, a)
    return tuple(rng.sample(range(nq), 2))


def gen_tk_spec(rng, max_q=5, max_b=2, max_gates=7, kinds=None):
    nq = rng.choice([1, 2, 2, 3, 3, 3, 4, 4])
    if max_q >= 5 and rng.random() < 0.05:
        nq = 5
    # the imported circuit keeps all units alive: its mixed evaluation costs ~ 4**nq * 2**nb per box
    nb = rng.randint(0, max_b) if nq <= 3 else (rng.randint(0, 1) if nq == 4 else 0)
    max_gates = max_gates if nq <= 3 else (5 if nq == 4 else 3)
    kinds = kinds or ["H", "S", "T", "X", "Y", "Z", "Rx", "Rz", "CX", "CZ", "CRz", "Measure", "Measure"]
    gates = [[rng.choice(["X", "H", "X"]), q] for q in range(nq) if rng.random() < 0.6]   # break symmetry
    for _ in range(rng.randint(1, max_gates)):
        k = rng.choice(kinds)
        if k in ("H", "S", "T", "X", "Y", "Z"):
            gates.append([k, rng.randrange(nq)])
        elif k in ("Rx", "Rz"):
            q, phase = rng.randrange(nq), rng.choice([0.25, 0.5, 0.3, -0.7, 1.1, 2.0, -1.25])
            if k == "Rz" and rng.random() < 0.6:      # a phase only shows between basis changes
                gates += [["H", q], [k, phase, q], ["H", q]]
            else:
                gates.append([k, phase, q])
        elif k in ("CX", "CZ", "SWAP") and nq >= 2:
            a, b = _pair(rng, nq)
            gates.append([k, a, b])
        elif k == "CRz" and nq >= 2:
            a, b = _pair(rng, nq)
            phase = rng.choice([0.25, 0.5, 0.3, -0.7, 1.5])
            if rng.random() < 0.6:
                gates += [["H", a], ["H", b], [k, phase, a, b], ["H", a], ["H", b]]
            else:
                gates.append([k, phase, a, b])
        elif k == "Measure" and nb:
            gates.append([k, rng.randrange(nq), rng.randrange(nb)])
    spec = {"nq": nq, "nb": nb, "gates": gates}
    if nq >= 2 and rng.random() < 0.15:
        spec["split"] = [rng.randint(1, nq - 1), rng.randint(0, nb)]
    return spec


# ---------------------------------------------------------------------------
# the simulated backend peer
# ---------------------------------------------------------------------------

class _Result:
    def __init__(self, counts):
        self._counts = counts

    def get_counts(self):
        return self._counts


class SimBackend:
    """In-process stand-in for a remote pytket backend: a job queue with
    simulated completion times, opaque handles, exact frequencies rendered in
    a per-call representation, and injected failures.  Every decision comes
    from the explicit `plan` (drawn by PRNG_peer in the driver and recorded in
    the op), so a replay needs no PRNG."""

    def __init__(self, plan, cache=None):
        self.plan = plan
        self.cache = cache            # results kept by the peer across calls (a caching backend)
        self.now = 0.0
        self.seq = 0
        self.calls = 0
        self.jobs = {}
        self.log = []
        self.stats = collections.Counter()

    def _tick(self, what):
        self.calls += 1
        if self.plan.get("fail_at") == self.calls:
            self.stats["F4p_failure_" + what] += 1
            raise BackendFailure("SimBackend: injected failure in %s (call %d)" % (what, self.calls))

    def _draw(self, key, k):
        vals = self.plan.get(key) or [0]
        return vals[k % len(vals)]

    def process_circuits(self, circuits, n_shots=None, seed=None, **kwargs):
        self._tick("process_circuits")
        handles = []
        for c in circuits:
            tag = self._draw("handle_tags", self.seq)
            delay = 1.0 + self._draw("delays", self.seq)
            h = ("job-%x" % (tag * 7919 + self.seq * 104729 + 17), self.seq)
            self.jobs[h] = {"circuit": c, "n_shots": n_shots, "done_at": self.now + delay,
                            "seq": self.seq}
            self.seq += 1
            handles.append(h)
        self.log.append(("submit", len(handles), n_shots, seed))
        order = sorted(handles, key=lambda x: self.jobs[x]["done_at"])
        if order != handles:
            self.stats["F4_out_of_order_completion"] += 1
        return tuple(handles) if self.plan.get("handles_as_tuple") else handles

    def get_result(self, handle):
        self._tick("get_result")
        job = self.jobs[handle]
        if job["done_at"] > self.now:
            self.now = job["done_at"]          # the client blocks: clock jumps to completion
        c, n_shots = job["circuit"], job["n_shots"] or 1
        factor = self.plan.get("shots_factor") or 1
        if factor != 1:
            # a peer that takes another number of shots than it was asked for (a cap, a minimum, its own
            # resolution): the frequencies are as exact, only their total is not n_shots
            n_shots = n_shots * factor
            self.stats["F4_other_shot_total"] += 1
        key = None
        if self.cache is not None and self.plan.get("cache_results"):
            key = (tuple(str(cmd) for cmd in c.get_commands()), c.n_qubits, len(c.bits), n_shots,
                   self.plan.get("rep"), bool(self.plan.get("int_counts")))
            if key in self.cache:
                self.stats["F4_cached_result_object_served_again"] += 1
                return self.cache[key]
        result = self._fresh_result(job, c, n_shots)
        if key is not None:
            self.cache[key] = result
        return result

    def _fresh_result(self, job, c, n_shots):
        P = simulate(c)
        nb = len(c.bits)
        k = job["seq"]
        items = []
        integral = True
        for idx in (np.ndindex(*P.shape) if nb else [()]):
            p = float(P[idx if nb else (0,)])
            if p == 0.0 and self._draw("omit_zero", k + len(items)):
                self.stats["F4_zero_outcome_omitted"] += 1
                continue
            if p == 0.0:
                self.stats["F4_zero_outcome_present"] += 1
            f = p * n_shots
            if abs(f - round(f)) > 1e-9:
                integral = False
            items.append((idx if nb else (), f))
        rep = self.plan.get("rep", "dict")
        if rep == "backendresult" and integral and nb:
            from pytket.backends.backendresult import BackendResult
            from pytket.utils.outcomearray import OutcomeArray
            from pytket.circuit import Bit
            counts = collections.Counter()
            for key, f in items:
                if round(f):
                    counts[OutcomeArray.from_readouts([list(key)])] = int(round(f))
            self.stats["F4_rep_real_BackendResult_int_shots"] += 1
            return BackendResult(counts=counts, c_bits=[Bit(i) for i in range(nb)])
        perm = self.plan.get("key_perm") or []
        if perm:
            order = sorted(range(len(items)), key=lambda i: (perm[i % len(perm)], i))
            items = [items[i] for i in order]
            self.stats["F4_key_order_shuffled"] += 1
        out = []
        for n_item, (key, f) in enumerate(items):
            if self._draw("numpy_keys", k + n_item):
                key = tuple(np.int64(b) for b in key)
                self.stats["F4_numpy_int_keys"] += 1
            if integral and self.plan.get("int_counts"):
                f = int(round(f))
            out.append((key, f))
        if integral and self.plan.get("int_counts"):
            self.stats["F4_integer_shots"] += 1
        if rep == "counter":
            self.stats["F4_rep_Counter"] += 1
            return _Result(collections.Counter(dict(out)))
        self.stats["F4_rep_dict"] += 1
        return _Result(dict(out))
