"""Explicit diagram specs <-> real discopy values, caller-side well-typedness
scan, and seeded spec generators.  A spec is plain JSON:

  {"cls": "monoidal"|"rigid"|"tensor"|"circuit"|"zx",
   "dom": [[name, z], ...],
   "boxes": [{"name":…, "dom":[…], "cod":[…], "kind":"box|cup|cap|swap", "dagger":bool}],
   "offsets": [...]}
"""
from sim import model as M
from sim.core import Violation, HarnessError


def _mods():
    from discopy import monoidal, rigid, tensor, cartesian
    from discopy.quantum import circuit, zx
    return {"monoidal": monoidal, "rigid": rigid, "tensor": tensor,
            "circuit": circuit, "zx": zx, "cartesian": cartesian}


def make_ty(cls, atoms):
    mods = _mods()
    if cls == "monoidal":
        return mods["monoidal"].Ty(*[a[0] for a in atoms])
    if cls == "rigid":
        R = mods["rigid"]
        return R.Ty(*[R.Ob(a[0], a[1]) for a in atoms])
    if cls == "tensor":
        return mods["tensor"].Dim(*[int(a[0]) for a in atoms])
    if cls == "circuit":
        C = mods["circuit"]
        t = C.Ty()
        for a in atoms:
            t = t @ (C.qubit if a[0] == "qubit" else C.bit)
        return t
    if cls == "zx":
        return mods["zx"].PRO(len(atoms))
    if cls == "cartesian":
        return mods["cartesian"].PRO(len(atoms))
    if cls == "pro":          # rigid diagrams over the self-dual type PRO(1): x.l == x.r == x
        return mods["rigid"].PRO(len(atoms))
    raise HarnessError("unknown class " + cls)


def make_box(cls, b):
    mods = _mods()
    mod = mods["rigid" if cls == "pro" else cls]
    dom, cod = make_ty(cls, b["dom"]), make_ty(cls, b["cod"])
    kind = b.get("kind", "box")
    if kind == "cup":
        return mods["rigid"].Cup(dom[:1], dom[1:])
    if kind == "cap":
        return mods["rigid"].Cap(cod[:1], cod[1:])
    if kind == "swap":
        return mod.Swap(dom[:1], dom[1:])
    if kind == "composite":       # a box that is itself a diagram of two boxes (as the slices of a foliation are)
        mid = make_ty(cls, b["mid"])
        return mod.Box(b["name"] + "_hi", dom, mid) >> mod.Box(b["name"] + "_lo", mid, cod)
    if kind == "idbox":           # an identity diagram used as a box
        return mod.Id(dom)
    if cls == "circuit" and str(b["name"]).startswith("ms") and not b["dom"] and not b["cod"]:
        from discopy.quantum.gates import MixedScalar
        return MixedScalar(0.5j)      # a box whose double dagger is not itself (mixedness is lost)
    if cls == "cartesian":
        k = len(b["cod"])

        def function(*xs, k=k):
            return tuple(range(k))
        function.__qualname__ = function.__name__ = "const%d" % k
        return mod.Box(b["name"], len(b["dom"]), k, function)
    if cls == "tensor":
        import numpy as np
        n = 1
        for a in b["dom"] + b["cod"]:
            n *= int(a[0])
        data = np.arange(n) % 3 - 1
        box = mod.Box(b["name"], cod if b.get("dagger") else dom,
                      dom if b.get("dagger") else cod, data)
    elif b.get("data") is not None and cls in ("monoidal", "rigid", "pro"):
        data = b["data"]
        if data == "phi":
            import sympy
            data = sympy.Symbol("phi")          # a free symbol, for subs()
        box = mod.Box(b["name"], cod if b.get("dagger") else dom,
                      dom if b.get("dagger") else cod, data=data)
    else:
        box = mod.Box(b["name"], cod if b.get("dagger") else dom,
                      dom if b.get("dagger") else cod)
    if b.get("dagger"):
        box = box.dagger()
    return box


def spec_model(spec):
    boxes = [M.mbox(b["name"] if b.get("data") is None else "%s#%s" % (
                        b["name"], b["data"] if b["data"] == "phi" else repr(b["data"])),
                    b["dom"], b["cod"], b.get("kind", "box"),
                    b.get("dagger", False)) for b in spec["boxes"]]
    return M.mdiagram(spec["dom"], boxes, spec["offsets"])


def diagram_class(cls):
    mods = _mods()
    return {"monoidal": mods["monoidal"].Diagram, "rigid": mods["rigid"].Diagram,
            "tensor": mods["tensor"].Diagram, "circuit": mods["circuit"].Circuit,
            "zx": mods["zx"].Diagram, "cartesian": mods["cartesian"].Diagram,
            "pro": mods["rigid"].Diagram}[cls]


def build(spec):
    """Real diagram from a spec through the *scanning* public constructor."""
    cls = spec["cls"]
    sm = spec_model(spec)
    cod = M.cod_of(sm)            # raises ModelError on an ill-typed spec
    if spec.get("share"):
        # equal boxes are ONE Python object occurring several times (as when a user writes
        # cap = Cap(n.r, n) once and uses it twice)
        memo = {}
        boxes = [memo.setdefault(repr(sorted(b.items())), make_box(cls, b)) for b in spec["boxes"]]
    else:
        boxes = [make_box(cls, b) for b in spec["boxes"]]
    return diagram_class(cls)(make_ty(cls, spec["dom"]), make_ty(cls, cod),
                              boxes, list(spec["offsets"]))


def rebuild(real, model):
    """Real diagram for `model`, a rearrangement of the boxes of `real`
    (boxes are matched by ident = repr)."""
    by_ident = {}
    for b in real.boxes:
        by_ident.setdefault("%s|%r|%r" % (repr(b), M.atoms_of(b.dom), M.atoms_of(b.cod)), b)
    boxes = [by_ident[b[0]] for b in model[1]]
    from discopy import monoidal
    # the scanning constructor, then the class-preserving upgrade (type(real) may be Id or Box,
    # whose constructors have other signatures)
    return real.upgrade(monoidal.Diagram(real.dom, real.cod, boxes, list(model[2])))


def _differ(a, b):
    """a != b, falling back on reprs where == is not a boolean (numpy payloads)."""
    try:
        return bool(a != b)
    except ValueError:
        return repr(a) != repr(b)


def public_scan_problem(d):
    """Caller-side well-typedness check through the public API only
    (dom, cod, boxes, offsets, layers).  None if well-typed."""
    boxes, offsets = d.boxes, d.offsets
    try:
        layers = list(d.layers)
    except Exception as err:
        return "layers unreadable: %s" % type(err).__name__
    if not (len(boxes) == len(offsets) == len(layers)):
        return "lengths differ: boxes=%d offsets=%d layers=%d" % (
            len(boxes), len(offsets), len(layers))
    if list(d.layers.dom.objects) != list(d.dom.objects) or list(d.layers.cod.objects) != list(d.cod.objects):
        return "layer arrow dom/cod differ from the diagram's"
    scan = list(d.dom.objects)
    for k, (box, off) in enumerate(zip(boxes, offsets)):
        bdom = list(box.dom.objects)
        n = len(bdom)
        if not isinstance(off, int) or off < 0 or off + n > len(scan):
            return "box %d does not fit at offset %r" % (k, off)
        if scan[off:off + n] != bdom:
            return "box %d does not find its domain at its offset" % k
        left, lbox, right = layers[k]
        if lbox is not box and _differ(lbox, box):
            return "layer %d holds another box" % k
        if list(left.objects) != scan[:off] or list(right.objects) != scan[off + n:]:
            return "layer %d side wires disagree with the scan" % k
        scan[off:off + n] = list(box.cod.objects)
    if scan != list(d.cod.objects):
        return "scan ends on another type than cod %s" % (d.cod, )
    return None


def require_well_typed(d, kind, what):
    msg = public_scan_problem(d)
    if msg:
        raise Violation(kind, "%s is ill-typed: %s" % (what, msg), {"repr": repr(d)[:500]})


# ---------------------------------------------------------------------------
# seeded generators of specs
# ---------------------------------------------------------------------------

def gen_monoidal(rng, nboxes, cls="monoidal", atoms=("x", "y"), maxw=6,
                 p_connected=0.5, p_degenerate=0.4, p_samename=0.25):
    """Random diagram spec grown layer by layer."""
    def atom():
        return [rng.choice(atoms), 0]
    dom = [atom() for _ in range(rng.randint(0, min(3, maxw)))]
    cur, prod = list(dom), [None] * len(dom)     # prod: producer box of each wire
    boxes, offsets = [], []
    connected_mode = rng.random() < p_connected
    degenerate = rng.random() < p_degenerate
    pair_pending = None
    for k in range(nboxes):
        if pair_pending is not None:
            # second half of a 'tie': a state at the very offset where an effect has just ended a wire
            # (such a pair can be exchanged on either side - the case where the preference matters)
            off, nin, nout = pair_pending, 0, 1
            pair_pending = None
            bcod = [atom()]
            boxes.append({"name": "st%d" % k, "dom": [], "cod": bcod, "kind": "box", "dagger": False})
            offsets.append(off)
            cur = cur[:off] + bcod + cur[off:]
            prod = prod[:off] + [k] + prod[off:]
            continue
        if cur and k + 1 < nboxes and rng.random() < 0.12:
            off = rng.randrange(len(cur))
            boxes.append({"name": "ef%d" % k, "dom": [list(cur[off])], "cod": [], "kind": "box",
                          "dagger": False})
            offsets.append(off)
            cur = cur[:off] + cur[off + 1:]
            prod = prod[:off] + prod[off + 1:]
            pair_pending = off
            continue
        nin = rng.randint(0, min(2, len(cur))) if degenerate or rng.random() < 0.15 else \
            (rng.randint(1, min(2, len(cur))) if cur else 0)
        if rng.random() < 0.1 and len(cur) >= 3:
            nin = 3
        if nin > len(cur):
            nin = len(cur)
        offs = list(range(0, len(cur) - nin + 1))
        if connected_mode and k > 0 and nin > 0:
            good = [o for o in offs if any(p is not None for p in prod[o:o + nin])]
            if good:
                offs = good
        off = rng.choice(offs)
        nout = rng.choice([0, 0, 1, 1, 2]) if degenerate else rng.choice([1, 1, 2])
        if connected_mode and nout == 0 and k < nboxes - 1 and (len(cur) - nin == 0 or rng.random() < 0.5):
            nout = 1          # (an effect in the middle is fine as long as other wires go on)
        if len(cur) - nin + nout > maxw:
            nout = max(0, maxw - (len(cur) - nin))
        name = rng.choice(["f", "g"]) if rng.random() < p_samename else "b%d" % k
        if cls == "circuit" and nin == 0 and nout == 0 and rng.random() < 0.5:
            name = "ms"
        bdom = [list(a) for a in cur[off:off + nin]]
        bcod = [atom() for _ in range(nout)]
        boxes.append({"name": name, "dom": bdom, "cod": bcod, "kind": "box",
                      "dagger": cls in ("monoidal", "rigid") and rng.random() < 0.1})
        if cls in ("monoidal", "rigid") and name in ("f", "g") and rng.random() < 0.5:
            boxes[-1]["data"] = rng.choice([0, 1, "phi"])        # equal name and type, other data
        offsets.append(off)
        cur = cur[:off] + bcod + cur[off + nin:]
        prod = prod[:off] + [k] * nout + prod[off + nin:]
    return {"cls": cls, "dom": dom, "boxes": boxes, "offsets": offsets, "share": rng.random() < 0.3}


def gen_rigid(rng, nsteps, atoms=("a", "b"), maxw=6, zs=(0, 0, 0, 1, -1, 2, -2, 3, -3),
              p_template=0.5, p_connected=0.5, selfdual=False):
    """Random rigid spec mixing boxes, caps and cups of both orientations,
    with snake templates (cap, obstructions on either side, cup)."""
    if selfdual:
        atoms, zs = ("1",), (0,)

    def ob():
        return [rng.choice(atoms), rng.choice(zs)]

    def adj(o, dz=None):
        """an adjoint of atom o (itself for self-dual types)"""
        return list(o) if selfdual else [o[0], o[1] + (dz if dz is not None else rng.choice([1, -1]))]

    def adjoint_ok(a, b):
        return list(a) == list(b) if selfdual else M.adjoint_ok(a, b)
    cur = [ob() for _ in range(rng.randint(0, 3))]
    dom = [list(a) for a in cur]
    boxes, offsets, nb = [], [], [0]
    connected_mode = rng.random() < p_connected

    def add(box, off):
        nonlocal cur
        boxes.append(box)
        offsets.append(off)
        cur = cur[:off] + [list(a) for a in box["cod"]] + cur[off + len(box["dom"]):]

    def add_box(lo=None, hi=None):
        """random box using wires in [lo, hi) only (None = anywhere)"""
        lo_, hi_ = (0 if lo is None else lo), (len(cur) if hi is None else hi)
        span = hi_ - lo_
        nin = rng.randint(1 if connected_mode and span else 0, min(2, span))
        off = rng.randint(lo_, hi_ - nin)
        nout = rng.randint(1 if connected_mode else 0, 2)
        if len(cur) - nin + nout > maxw:
            nout = 0
        box = {"name": "f%d" % nb[0], "dom": [list(a) for a in cur[off:off + nin]],
               "cod": [ob() for _ in range(nout)], "kind": "box", "dagger": False}
        nb[0] += 1
        add(box, off)
        return nout - nin, off

    caps_made = []

    def cap_at(off, o=None):
        if caps_made and rng.random() < 0.4:
            pair = [list(a) for a in rng.choice(caps_made)]      # the same cap again
        else:
            o = o or ob()
            pair = [o, adj(o)]
        caps_made.append(pair)
        add({"name": "Cap", "dom": [], "cod": pair, "kind": "cap", "dagger": False}, off)

    def cup_at(off):
        add({"name": "Cup", "dom": [list(cur[off]), list(cur[off + 1])], "cod": [],
             "kind": "cup", "dagger": False}, off)

    def cup_candidates():
        return [i for i in range(len(cur) - 1) if adjoint_ok(cur[i], cur[i + 1])]

    def snake_template():
        """wire w at position p; cap next to it; obstructions; cup."""
        if len(cur) + 2 > maxw:
            return False
        left_snake = rng.random() < 0.5
        if not cur:
            return False
        p = rng.randrange(len(cur))
        w = cur[p]
        valid = rng.random() < 0.8
        if left_snake:
            # Id(w) @ Cap(a, b) with a adjoint of w; outer leg b
            a = adj(w)
            b = list(w) if valid or selfdual else [w[0], a[1] + (a[1] - w[1])]
            add({"name": "Cap", "dom": [], "cod": [a, b], "kind": "cap", "dagger": False}, p + 1)
            mid = p + 1       # position of the wire that will enter the cup (leg a), cup at p
        else:
            b = adj(w)
            a = list(w) if valid or selfdual else [w[0], b[1] + (b[1] - w[1])]
            add({"name": "Cap", "dom": [], "cod": [a, b], "kind": "cap", "dagger": False}, p)
            mid = p + 1       # leg b at p+1, outer wire w now at p+2, cup at p+1
        # obstructions: boxes strictly left of the cup pair or strictly right of it
        cup_off = p if left_snake else p + 1
        for _ in range(rng.randint(0, 3)):
            side = rng.random() < 0.5
            if side:      # left of the pair
                if len(cur) >= maxw and cup_off == 0:
                    continue
                delta, off = add_box(0, cup_off)
                cup_off += delta
            else:
                add_box(cup_off + 2, len(cur))
        if cup_off + 1 < len(cur) and adjoint_ok(cur[cup_off], cur[cup_off + 1]):
            cup_at(cup_off)
        return True

    for _ in range(nsteps):
        r = rng.random()
        if r < p_template * 0.5 and snake_template():
            continue
        kind = rng.choice(["box", "box", "cap", "cap", "cup", "cup", "cup"])
        if kind == "cup":
            cands = cup_candidates()
            if cands:
                cup_at(rng.choice(cands))
                continue
            kind = "cap"
        if kind == "cap":
            if len(cur) + 2 <= maxw:
                cap_at(rng.randint(0, len(cur)))
                continue
        add_box()
    share = rng.random() < 0.4
    caps = [b for b in boxes if b["kind"] == "cap"]
    if caps and rng.random() < 0.3:
        # an equal cap earlier in the diagram whose legs just run down to the boundary, at the far
        # right so that no later offset moves; with `share` it is the same object as the later one
        twin = rng.choice(caps)
        boxes.insert(0, {"name": "Cap", "dom": [], "cod": [list(a) for a in twin["cod"]], "kind": "cap",
                         "dagger": False})
        offsets.insert(0, len(dom))
        share = share or rng.random() < 0.5
    return {"cls": "pro" if selfdual else "rigid", "dom": dom, "boxes": boxes, "offsets": offsets,
            "share": share}


def with_diagram_boxes(rng, spec):
    """Turn one or two plain boxes of a monoidal/rigid spec into boxes that are themselves diagrams,
    and perhaps insert an identity diagram used as a box (typing is unchanged)."""
    spec = dict(spec, boxes=[dict(b) for b in spec["boxes"]], offsets=list(spec["offsets"]))
    plain = [k for k, b in enumerate(spec["boxes"]) if b.get("kind", "box") == "box"
             and not b.get("dagger") and b.get("data") is None]
    rng.shuffle(plain)
    for k in plain[:rng.randint(1, 2)]:
        b = spec["boxes"][k]
        b["kind"] = "composite"
        b["mid"] = [list(a) for a in (b["dom"] or b["cod"])[:1]] if rng.random() < 0.7 else []
    if rng.random() < 0.4:
        layers, cod = M.scan(spec_model(spec))
        k = rng.randint(0, len(spec["boxes"]))
        cur = list(cod) if k == len(layers) else list(layers[k][0]) + list(layers[k][1][2]) + list(layers[k][2])
        if cur:
            off = rng.randrange(len(cur))
            t = [list(a) for a in cur[off:off + rng.randint(1, 2)]]
            spec["boxes"].insert(k, {"name": "id", "dom": t, "cod": [list(a) for a in t], "kind": "idbox",
                                     "dagger": False})
            spec["offsets"].insert(k, off)
    return spec


def spec_of(real, cls):
    """Spec of a real diagram (monoidal / rigid families with plain boxes)."""
    m = M.model_of(real)
    boxes = [{"name": b[1], "dom": [list(a) for a in b[2]], "cod": [list(a) for a in b[3]],
              "kind": b[4], "dagger": b[5]} for b in m[1]]
    return {"cls": cls, "dom": [list(a) for a in m[0]], "boxes": boxes,
            "offsets": list(m[2])}


def shrink_spec(spec):
    """Smaller specs: delete one box and keep the rest if still well-typed."""
    n = len(spec["boxes"])
    for k in reversed(range(n)):
        cand = dict(spec)
        cand["boxes"] = spec["boxes"][:k] + spec["boxes"][k + 1:]
        cand["offsets"] = spec["offsets"][:k] + spec["offsets"][k + 1:]
        try:
            M.cod_of(spec_model(cand))
        except M.ModelError:
            continue
        yield cand
    if spec["dom"]:
        for k in reversed(range(len(spec["dom"]))):
            cand = dict(spec)
            cand["dom"] = spec["dom"][:k] + spec["dom"][k + 1:]
            cand["offsets"] = [o - 1 if o > k else o for o in spec["offsets"]]
            try:
                if min(cand["offsets"] + [0]) < 0:
                    continue
                M.cod_of(spec_model(cand))
            except M.ModelError:
                continue
            yield cand
