#!/usr/bin/env python3
"""Confirm an independently written change (from a sub-agent's scratch worktree)
and keep it under /verif/seeded/<id>/.   usage: tools_seed.py <worktree> <A|B> <id> <property>"""
import json, os, re, shutil, subprocess, sys

wt, which, sid, prop = sys.argv[1:5]
REFACTOR = len(sys.argv) > 5 and sys.argv[5] == "refactor"      # a change that keeps the property
src = os.path.join(wt, "out", which)
PY = "/venv/bin/python"


def sh(cmd, **kw):
    return subprocess.run(cmd, shell=True, cwd=wt, capture_output=True, text=True, **kw)


def demo():
    env = dict(os.environ, PYTHONPATH=wt)
    return subprocess.run([PY, os.path.join("out", which, "demo.py")], cwd=wt, capture_output=True,
                          text=True, env=env, timeout=900).returncode


def suite():
    out = sh(PY + " -m pytest -q -p no:cacheprovider --timeout=900 --continue-on-collection-errors 2>&1 | tail -15").stdout
    m = re.search(r"(\d+) failed, (\d+) passed", out)
    failed = sorted(re.findall(r"FAILED (\S+)", out))
    return (int(m.group(1)), int(m.group(2))) if m else None, failed


assert sh("git status --porcelain -- discopy").stdout.strip() == "", "worktree not clean"
ran = {}
ran["demo_clean_exit"] = demo()
assert sh("git apply " + os.path.join("out", which, "patch.diff")).returncode == 0, "patch does not apply"
try:
    ran["demo_patched_exit"] = demo()
    ran["suite_patched"], failed = suite()
    ran["imports_from"] = subprocess.run([PY, "-c", "import discopy; print(discopy.__file__)"], cwd=wt,
                                         capture_output=True, text=True).stdout.strip()
finally:
    sh("git checkout -- discopy")
ok = ran["demo_clean_exit"] == 0 and ran["suite_patched"] == (10, 219) and (
    ran["demo_patched_exit"] == 0 if REFACTOR else ran["demo_patched_exit"] != 0)
print(json.dumps(ran), "CONFIRMED" if ok else "NOT CONFIRMED")
if not ok:
    sys.exit(1)
dst = os.path.join("/verif/seeded", sid)
os.makedirs(dst, exist_ok=True)
for f in os.listdir(src):
    if f.endswith((".py", ".diff", ".md")):
        shutil.copy(os.path.join(src, f), dst)
notes = open(os.path.join(src, "notes.md")).read() if os.path.exists(os.path.join(src, "notes.md")) else ""
meta = {"property": prop, "what": " ".join(notes.split())[:400],
        "needs": "see notes.md", "origin": "independent sub-agent given only the property text and a scratch worktree",
        "confirmed": ran, "expect": "clean" if REFACTOR else "violation",
        "ran": ("demo.py (shows the behavioural difference) exits 0 on both trees; " if REFACTOR else
                "demo.py exits 0 on the clean worktree and non-zero with patch.diff applied; ") +
               "the repository's suite with the patch: 10 failed, 219 passed (the baseline's 10)"}
json.dump(meta, open(os.path.join(dst, "meta.json"), "w"), indent=1)
print("kept as", dst)
